//! ndi-facts: a rustc_private driver that dumps type-resolved facts about the
//! crate being compiled (items, typed expression trees (THIR), MIR with
//! resolved callees, type-level queries) as one JSON file per crate.
//!
//! It never runs the analysed code.  It is injected with
//! RUSTC_WORKSPACE_WRAPPER, so argv = [driver, rustc, <rustc args...>].
#![feature(rustc_private)]
#![feature(box_patterns)]

extern crate rustc_abi;
extern crate rustc_ast;
extern crate rustc_data_structures;
extern crate rustc_driver;
extern crate rustc_hir;
extern crate rustc_index;
extern crate rustc_infer;
extern crate rustc_interface;
extern crate rustc_middle;
extern crate rustc_session;
extern crate rustc_span;
extern crate rustc_trait_selection;
extern crate rustc_type_ir;

mod casts;
mod items;
mod json;
mod mir_dump;
mod thir_dump;
mod util;

use json::J;
use rustc_driver::{Callbacks, Compilation};
use rustc_hir::def_id::LOCAL_CRATE;
use rustc_interface::interface;
use rustc_middle::ty::TyCtxt;

struct Cb;

impl Callbacks for Cb {
    fn after_analysis<'tcx>(
        &mut self,
        _compiler: &interface::Compiler,
        tcx: TyCtxt<'tcx>,
    ) -> Compilation {
        let out_dir = match std::env::var("NDI_FACTS_DIR") {
            Ok(d) => d,
            Err(_) => return Compilation::Continue,
        };
        let crate_name = tcx.crate_name(LOCAL_CRATE).to_string();
        let wanted = std::env::var("NDI_CRATES").unwrap_or_default();
        if !wanted.split(',').any(|c| c == crate_name) {
            return Compilation::Continue;
        }
        let nonce = std::env::var("NDI_NONCE").unwrap_or_default();
        let mut root = J::obj();
        root.put("nonce", J::s(nonce));
        root.put("crate", J::s(crate_name.clone()));
        root.put(
            "rustc",
            J::s(option_env!("CFG_VERSION").unwrap_or("nightly").to_string()),
        );
        rustc_middle::ty::print::with_no_trimmed_paths!({
            root.put("adts", items::dump_adts(tcx));
            root.put("statics", items::dump_statics(tcx));
            root.put("modules", items::dump_modules(tcx));
            root.put("impls", items::dump_impls(tcx));
            root.put("traits", items::dump_trait_queries(tcx));
            let (bodies, unsafe_blocks) = thir_dump::dump_bodies(tcx);
            root.put("bodies", bodies);
            root.put("unsafe_blocks", unsafe_blocks);
            root.put("mir", mir_dump::dump_mir(tcx));
            root.put("casts", casts::dump_cast_obligations(tcx));
            if std::env::var("NDI_MONO").is_ok() {
                root.put("mono", mir_dump::dump_mono(tcx));
            }
        });
        let mut s = String::new();
        root.write(&mut s);
        let path = format!("{}/facts-{}.json", out_dir, crate_name);
        let tmp = format!("{}.tmp{}", path, std::process::id());
        std::fs::write(&tmp, s).expect("write facts");
        std::fs::rename(&tmp, &path).expect("rename facts");
        Compilation::Continue
    }
}

fn main() {
    let mut args: Vec<String> = std::env::args().collect();
    // wrapper mode: argv[1] is the path of the real rustc
    if args.len() > 1 && (args[1].ends_with("rustc") || args[1].contains("/rustc")) {
        args.remove(1);
    }
    rustc_driver::run_compiler(&args, &mut Cb);
}
