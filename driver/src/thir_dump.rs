//! Typed expression trees (THIR) of every body of the local crate as JSON.
use crate::json::J;
use crate::util::*;
use rustc_hir::def::DefKind;
use rustc_hir::def_id::LocalDefId;
use rustc_middle::thir::*;
use rustc_middle::ty::{self, Ty, TyCtxt};

struct Cx<'a, 'tcx> {
    tcx: TyCtxt<'tcx>,
    thir: &'a Thir<'tcx>,
    owner: LocalDefId,
    unsafe_blocks: Vec<J>,
}

pub fn dump_bodies<'tcx>(tcx: TyCtxt<'tcx>) -> (J, J) {
    let mut bodies = Vec::new();
    let mut unsafe_blocks = Vec::new();
    for ldid in tcx.hir_body_owners() {
        let kind = tcx.def_kind(ldid);
        let Ok((steal, root)) = tcx.thir_body(ldid) else {
            continue;
        };
        if steal.is_stolen() {
            bodies.push(
                J::obj()
                    .set("def", J::s(def_str(tcx, ldid.to_def_id())))
                    .set("stolen", J::Bool(true)),
            );
            continue;
        }
        let thir = steal.borrow();
        let mut cx = Cx {
            tcx,
            thir: &thir,
            owner: ldid,
            unsafe_blocks: Vec::new(),
        };
        let mut b = J::obj();
        b.put("def", J::s(def_str(tcx, ldid.to_def_id())));
        b.put("kind", J::s(format!("{:?}", kind)));
        b.put("span", J::s(span_str(tcx, tcx.def_span(ldid))));
        b.put("expn", expn_info(tcx, tcx.def_span(ldid)));
        if matches!(kind, DefKind::Fn | DefKind::AssocFn) {
            b.put(
                "vis",
                J::s(format!("{:?}", tcx.visibility(ldid.to_def_id()))),
            );
            let sig = tcx.fn_sig(ldid.to_def_id()).instantiate_identity().skip_norm_wip();
            b.put("sig", J::s(format!("{}", sig)));
            // generic parameters (parents first), in the order generic arguments are listed at call sites
            {
                let mut names: Vec<J> = Vec::new();
                let mut chain = Vec::new();
                let mut cur = Some(ldid.to_def_id());
                while let Some(d) = cur {
                    let g = tcx.generics_of(d);
                    chain.push(g);
                    cur = g.parent;
                }
                for g in chain.iter().rev() {
                    for p in g.own_params.iter() {
                        if !matches!(p.kind, ty::GenericParamDefKind::Lifetime) {
                            names.push(J::s(p.name.to_string()));
                        }
                    }
                }
                b.put("generics", J::Arr(names));
            }
            b.put(
                "unsafe",
                J::Bool(sig.safety().is_unsafe()),
            );
            // parent impl / trait
            let parent = tcx.parent(ldid.to_def_id());
            b.put("parent", J::s(def_str(tcx, parent)));
            b.put("parent_kind", J::s(format!("{:?}", tcx.def_kind(parent))));
            if let DefKind::Impl { of_trait } = tcx.def_kind(parent) {
                let self_ty = tcx.type_of(parent).instantiate_identity().skip_norm_wip();
                b.put("impl_self", J::s(ty_str(self_ty)));
                if of_trait {
                    let tr = tcx.impl_trait_ref(parent).instantiate_identity().skip_norm_wip();
                    b.put("impl_trait", J::s(def_str(tcx, tr.def_id)));
                    b.put("impl_trait_ref", J::s(format!("{}", tr)));
                }
            }
        }
        if matches!(kind, DefKind::Closure) {
            let parent = tcx.typeck_root_def_id(ldid.to_def_id());
            b.put("closure_of", J::s(def_str(tcx, parent)));
        }
        let params: Vec<J> = thir
            .params
            .iter()
            .map(|p| {
                let mut o = J::obj();
                o.put("ty", J::s(ty_str(p.ty)));
                o.put(
                    "pat",
                    match &p.pat {
                        Some(pat) => cx.pat(pat),
                        None => J::Null,
                    },
                );
                o.put(
                    "self_kind",
                    match p.self_kind {
                        Some(k) => J::s(format!("{:?}", k)),
                        None => J::Null,
                    },
                );
                o
            })
            .collect();
        b.put("params", J::Arr(params));
        b.put("root", cx.expr(root));
        unsafe_blocks.extend(cx.unsafe_blocks.drain(..));
        bodies.push(b);
    }
    (J::Arr(bodies), J::Arr(unsafe_blocks))
}

impl<'a, 'tcx> Cx<'a, 'tcx> {
    fn var(&self, id: LocalVarId) -> J {
        let name = self.tcx.hir_name(id.0);
        J::s(format!("{}#{}", name, id.0.local_id.as_u32()))
    }

    fn fn_ref(&self, ty: Ty<'tcx>) -> J {
        match ty.kind() {
            ty::FnDef(did, args) => {
                let mut o = J::obj();
                o.put("path", J::s(def_str(self.tcx, *did)));
                o.put("crate", J::s(crate_of(self.tcx, *did)));
                o.put("gargs", gargs(args));
                // a tuple-struct / tuple-variant constructor used as a function value
                if let DefKind::Ctor(of, _) = self.tcx.def_kind(*did) {
                    let parent = self.tcx.parent(*did);
                    let mut c = J::obj();
                    match of {
                        rustc_hir::def::CtorOf::Variant => {
                            c.put("adt", J::s(def_str(self.tcx, self.tcx.parent(parent))));
                            c.put("variant", J::s(self.tcx.item_name(parent).to_string()));
                        }
                        rustc_hir::def::CtorOf::Struct => {
                            c.put("adt", J::s(def_str(self.tcx, parent)));
                            c.put("variant", J::s(self.tcx.item_name(parent).to_string()));
                        }
                    }
                    o.put("ctor", c);
                }
                // trait method? record the trait and try to resolve to an impl
                if let Some(tr) = self.tcx.trait_of_assoc(*did) {
                    o.put("trait", J::s(def_str(self.tcx, tr)));
                }
                let env = ty::TypingEnv::post_analysis(self.tcx, self.owner);
                if let Ok(Some(inst)) = ty::Instance::try_resolve(self.tcx, env, *did, args) {
                    let rd = inst.def_id();
                    if rd != *did {
                        o.put("resolved", J::s(def_str(self.tcx, rd)));
                    }
                }
                o
            }
            ty::Closure(did, _) => J::obj()
                .set("closure", J::s(def_str(self.tcx, *did))),
            _ => J::Null,
        }
    }

    fn expr(&mut self, id: ExprId) -> J {
        let e = &self.thir[id];
        // transparent wrappers
        match &e.kind {
            ExprKind::Scope { value, .. } => return self.expr(*value),
            ExprKind::Use { source } => return self.expr(*source),
            ExprKind::PlaceTypeAscription { source, .. }
            | ExprKind::ValueTypeAscription { source, .. } => return self.expr(*source),
            _ => {}
        }
        let mut o = J::obj();
        let tcx = self.tcx;
        let kind_name;
        match &e.kind {
            ExprKind::If {
                cond,
                then,
                else_opt,
                ..
            } => {
                kind_name = "If";
                o.put("cond", self.expr(*cond));
                o.put("then", self.expr(*then));
                o.put(
                    "else",
                    match else_opt {
                        Some(x) => self.expr(*x),
                        None => J::Null,
                    },
                );
            }
            ExprKind::Call {
                ty,
                fun,
                args,
                from_hir_call,
                ..
            } => {
                kind_name = "Call";
                let fr = self.fn_ref(*ty);
                if matches!(fr, J::Null) {
                    o.put("fun", self.expr(*fun));
                }
                o.put("callee", fr);
                o.put("from_hir_call", J::Bool(*from_hir_call));
                let a: Vec<J> = args.iter().map(|a| self.expr(*a)).collect();
                o.put("args", J::Arr(a));
            }
            ExprKind::ByUse { expr, .. } => {
                kind_name = "ByUse";
                o.put("e", self.expr(*expr));
            }
            ExprKind::Deref { arg } => {
                kind_name = "Deref";
                o.put("e", self.expr(*arg));
            }
            ExprKind::Binary { op, lhs, rhs } => {
                kind_name = "Binary";
                o.put("op", J::s(format!("{:?}", op)));
                o.put("l", self.expr(*lhs));
                o.put("r", self.expr(*rhs));
            }
            ExprKind::LogicalOp { op, lhs, rhs } => {
                kind_name = "Logical";
                o.put("op", J::s(format!("{:?}", op)));
                o.put("l", self.expr(*lhs));
                o.put("r", self.expr(*rhs));
            }
            ExprKind::Unary { op, arg } => {
                kind_name = "Unary";
                o.put("op", J::s(format!("{:?}", op)));
                o.put("e", self.expr(*arg));
            }
            ExprKind::Cast { source } => {
                kind_name = "Cast";
                o.put("e", self.expr(*source));
            }
            ExprKind::NeverToAny { source } => {
                kind_name = "NeverToAny";
                o.put("e", self.expr(*source));
            }
            ExprKind::PointerCoercion { cast, source, .. } => {
                kind_name = "PointerCoercion";
                o.put("cast", J::s(format!("{:?}", cast)));
                o.put("e", self.expr(*source));
            }
            ExprKind::Loop { body } => {
                kind_name = "Loop";
                o.put("body", self.expr(*body));
            }
            ExprKind::Let { expr, pat } => {
                kind_name = "LetExpr";
                o.put("e", self.expr(*expr));
                o.put("pat", self.pat(pat));
            }
            ExprKind::Match {
                scrutinee,
                arms,
                match_source,
            } => {
                kind_name = "Match";
                o.put("src", J::s(format!("{:?}", match_source)));
                o.put("scrut", self.expr(*scrutinee));
                let mut av = Vec::new();
                for a in arms.iter() {
                    let arm = &self.thir[*a];
                    let mut ao = J::obj();
                    ao.put("pat", self.pat(&arm.pattern));
                    ao.put(
                        "guard",
                        match arm.guard {
                            Some(g) => self.expr(g),
                            None => J::Null,
                        },
                    );
                    ao.put("body", self.expr(arm.body));
                    ao.put("sp", J::s(span_str(tcx, arm.span)));
                    av.push(ao);
                }
                o.put("arms", J::Arr(av));
            }
            ExprKind::Block { block } => {
                kind_name = "Block";
                let blk = &self.thir[*block];
                let is_unsafe = match blk.safety_mode {
                    BlockSafety::Safe => false,
                    BlockSafety::BuiltinUnsafe => true,
                    BlockSafety::ExplicitUnsafe(_) => true,
                };
                if is_unsafe {
                    o.put("unsafe", J::Bool(true));
                    self.unsafe_blocks.push(
                        J::obj()
                            .set("in", J::s(def_str(tcx, self.owner.to_def_id())))
                            .set("mode", J::s(format!("{:?}", blk.safety_mode).split('(').next().unwrap_or("").to_string()))
                            .set("sp", J::s(span_str(tcx, blk.span)))
                            .set("from_expansion", J::Bool(blk.span.from_expansion()))
                            .set("expn", expn_info(tcx, blk.span)),
                    );
                }
                let mut sv = Vec::new();
                for s in blk.stmts.iter() {
                    let st = &self.thir[*s];
                    match &st.kind {
                        StmtKind::Expr { expr, .. } => {
                            sv.push(J::obj().set("k", J::s("Expr")).set("e", self.expr(*expr)));
                        }
                        StmtKind::Let {
                            pattern,
                            initializer,
                            else_block,
                            span,
                            ..
                        } => {
                            let mut so = J::obj();
                            so.put("k", J::s("Let"));
                            so.put("pat", self.pat(pattern));
                            so.put(
                                "init",
                                match initializer {
                                    Some(i) => self.expr(*i),
                                    None => J::Null,
                                },
                            );
                            so.put("has_else", J::Bool(else_block.is_some()));
                            if let Some(eb) = else_block {
                                // the diverging block of `let PAT = INIT else { .. }`
                                let eblk = &self.thir[*eb];
                                let mut ev = Vec::new();
                                let mut plain = true;
                                for s2 in eblk.stmts.iter() {
                                    match &self.thir[*s2].kind {
                                        StmtKind::Expr { expr, .. } => {
                                            let je = self.expr(*expr);
                                            ev.push(J::obj().set("k", J::s("Expr")).set("e", je));
                                        }
                                        _ => plain = false,
                                    }
                                }
                                if plain {
                                    let mut bo = J::obj();
                                    bo.put("k", J::s("Block"));
                                    bo.put("ty", J::s("!"));
                                    bo.put("sp", J::s(span_str(tcx, eblk.span)));
                                    bo.put("stmts", J::Arr(ev));
                                    bo.put(
                                        "expr",
                                        match eblk.expr {
                                            Some(x) => self.expr(x),
                                            None => J::Null,
                                        },
                                    );
                                    so.put("else", bo);
                                }
                            }
                            so.put("sp", J::s(span_str(tcx, *span)));
                            sv.push(so);
                        }
                    }
                }
                o.put("stmts", J::Arr(sv));
                o.put(
                    "expr",
                    match blk.expr {
                        Some(x) => self.expr(x),
                        None => J::Null,
                    },
                );
            }
            ExprKind::Assign { lhs, rhs } => {
                kind_name = "Assign";
                o.put("l", self.expr(*lhs));
                o.put("r", self.expr(*rhs));
            }
            ExprKind::AssignOp { op, lhs, rhs } => {
                kind_name = "AssignOp";
                o.put("op", J::s(format!("{:?}", op)));
                o.put("l", self.expr(*lhs));
                o.put("r", self.expr(*rhs));
            }
            ExprKind::Field {
                lhs,
                variant_index,
                name,
            } => {
                kind_name = "Field";
                let lty = self.thir[*lhs].ty;
                let fname = match lty.kind() {
                    ty::Adt(adt, _) => adt.variant(*variant_index).fields[*name].name.to_string(),
                    _ => format!("{}", name.as_u32()),
                };
                o.put("name", J::s(fname));
                o.put("idx", J::Num(name.as_u32() as i64));
                o.put("e", self.expr(*lhs));
            }
            ExprKind::Index { lhs, index } => {
                kind_name = "Index";
                o.put("e", self.expr(*lhs));
                o.put("i", self.expr(*index));
            }
            ExprKind::VarRef { id } => {
                kind_name = "Var";
                o.put("var", self.var(*id));
            }
            ExprKind::UpvarRef { var_hir_id, .. } => {
                kind_name = "Upvar";
                o.put("var", self.var(*var_hir_id));
            }
            ExprKind::Borrow { borrow_kind, arg } => {
                kind_name = "Borrow";
                o.put("bk", J::s(format!("{:?}", borrow_kind)));
                o.put("e", self.expr(*arg));
            }
            ExprKind::RawBorrow { mutability, arg } => {
                kind_name = "RawBorrow";
                o.put("mut", J::s(format!("{:?}", mutability)));
                o.put("e", self.expr(*arg));
            }
            ExprKind::Break { value, .. } => {
                kind_name = "Break";
                o.put(
                    "e",
                    match value {
                        Some(v) => self.expr(*v),
                        None => J::Null,
                    },
                );
            }
            ExprKind::Continue { .. } => {
                kind_name = "Continue";
            }
            ExprKind::Return { value } => {
                kind_name = "Return";
                o.put(
                    "e",
                    match value {
                        Some(v) => self.expr(*v),
                        None => J::Null,
                    },
                );
            }
            ExprKind::Repeat { value, count } => {
                kind_name = "Repeat";
                o.put("e", self.expr(*value));
                o.put("count", J::s(format!("{}", count)));
            }
            ExprKind::Array { fields } => {
                kind_name = "Array";
                let a: Vec<J> = fields.iter().map(|a| self.expr(*a)).collect();
                o.put("elems", J::Arr(a));
            }
            ExprKind::Tuple { fields } => {
                kind_name = "Tuple";
                let a: Vec<J> = fields.iter().map(|a| self.expr(*a)).collect();
                o.put("elems", J::Arr(a));
            }
            ExprKind::Adt(box AdtExpr {
                adt_def,
                variant_index,
                fields,
                base,
                ..
            }) => {
                kind_name = "Adt";
                o.put("adt", J::s(def_str(tcx, adt_def.did())));
                let v = adt_def.variant(*variant_index);
                o.put("variant", J::s(v.name.to_string()));
                let mut fv = Vec::new();
                for f in fields.iter() {
                    fv.push(
                        J::obj()
                            .set("name", J::s(v.fields[f.name].name.to_string()))
                            .set("e", self.expr(f.expr)),
                    );
                }
                o.put("fields", J::Arr(fv));
                match base {
                    AdtExprBase::None => {}
                    AdtExprBase::Base(fru) => o.put("base", self.expr(fru.base)),
                    AdtExprBase::DefaultFields(_) => o.put("base", J::s("default")),
                }
            }
            ExprKind::Closure(box ClosureExpr {
                closure_id, upvars, ..
            }) => {
                kind_name = "Closure";
                o.put("def", J::s(def_str(tcx, closure_id.to_def_id())));
                let a: Vec<J> = upvars.iter().map(|a| self.expr(*a)).collect();
                o.put("upvars", J::Arr(a));
            }
            ExprKind::Literal { lit, neg } => {
                kind_name = "Lit";
                use rustc_ast::LitKind::*;
                let (t, v) = match &lit.node {
                    Str(s, _) => ("str", s.to_string()),
                    Int(n, _) => ("int", format!("{}", n.get())),
                    Float(s, _) => ("float", s.to_string()),
                    Bool(b) => ("bool", format!("{}", b)),
                    Char(c) => ("char", format!("{}", c)),
                    other => ("other", format!("{:?}", other)),
                };
                o.put("lt", J::s(t));
                o.put("v", J::s(v));
                o.put("neg", J::Bool(*neg));
            }
            ExprKind::NonHirLiteral { lit, .. } => {
                kind_name = "NonHirLit";
                o.put("v", J::s(format!("{:?}", lit)));
            }
            ExprKind::ZstLiteral { .. } => {
                kind_name = "Zst";
                o.put("fn", self.fn_ref(e.ty));
            }
            ExprKind::NamedConst { def_id, args, .. } => {
                kind_name = "NamedConst";
                o.put("def", J::s(def_str(tcx, *def_id)));
                o.put("gargs", gargs(args));
                if let Some(tr) = tcx.trait_of_assoc(*def_id) {
                    o.put("trait", J::s(def_str(tcx, tr)));
                }
            }
            ExprKind::ConstParam { def_id, .. } => {
                kind_name = "ConstParam";
                o.put("def", J::s(def_str(tcx, *def_id)));
            }
            ExprKind::StaticRef { def_id, .. } => {
                kind_name = "StaticRef";
                o.put("def", J::s(def_str(tcx, *def_id)));
            }
            ExprKind::ThreadLocalRef(def_id) => {
                kind_name = "ThreadLocalRef";
                o.put("def", J::s(def_str(tcx, *def_id)));
            }
            ExprKind::ConstBlock { did, .. } => {
                kind_name = "ConstBlock";
                o.put("def", J::s(def_str(tcx, *did)));
            }
            other => {
                kind_name = "Other";
                o.put("dbg", J::s(format!("{:?}", other).chars().take(200).collect::<String>()));
            }
        }
        // assemble: k, ty, sp, expn first
        let mut res = J::obj();
        res.put("k", J::s(kind_name));
        res.put("ty", J::s(ty_str(e.ty)));
        res.put("sp", J::s(span_str(tcx, e.span)));
        if e.span.from_expansion() {
            res.put("expn", expn_info(tcx, e.span));
        }
        if let (J::Obj(r), J::Obj(oo)) = (&mut res, o) {
            r.extend(oo);
        }
        res
    }

    fn pat(&mut self, p: &Pat<'tcx>) -> J {
        let tcx = self.tcx;
        let mut o = J::obj();
        o.put("ty", J::s(ty_str(p.ty)));
        match &p.kind {
            PatKind::Missing => o.put("k", J::s("Missing")),
            PatKind::Wild => o.put("k", J::s("Wild")),
            PatKind::Binding {
                name,
                mode,
                var,
                subpattern,
                ..
            } => {
                o.put("k", J::s("Binding"));
                o.put("name", J::s(name.to_string()));
                o.put("var", self.var(*var));
                o.put("mode", J::s(format!("{:?}", mode)));
                if let Some(s) = subpattern {
                    o.put("sub", self.pat(s));
                }
            }
            PatKind::Variant {
                adt_def,
                variant_index,
                subpatterns,
                ..
            } => {
                o.put("k", J::s("Variant"));
                o.put("adt", J::s(def_str(tcx, adt_def.did())));
                let v = adt_def.variant(*variant_index);
                o.put("variant", J::s(v.name.to_string()));
                let mut fv = Vec::new();
                for f in subpatterns {
                    fv.push(
                        J::obj()
                            .set("name", J::s(v.fields[f.field].name.to_string()))
                            .set("pat", self.pat(&f.pattern)),
                    );
                }
                o.put("fields", J::Arr(fv));
            }
            PatKind::Leaf { subpatterns } => {
                o.put("k", J::s("Leaf"));
                let mut fv = Vec::new();
                for f in subpatterns {
                    let fname = match p.ty.kind() {
                        ty::Adt(adt, _) if adt.is_struct() => {
                            adt.non_enum_variant().fields[f.field].name.to_string()
                        }
                        _ => format!("{}", f.field.as_u32()),
                    };
                    fv.push(
                        J::obj()
                            .set("name", J::s(fname))
                            .set("pat", self.pat(&f.pattern)),
                    );
                }
                o.put("fields", J::Arr(fv));
            }
            PatKind::Deref { subpattern, .. } => {
                o.put("k", J::s("Deref"));
                o.put("sub", self.pat(subpattern));
            }
            PatKind::DerefPattern { subpattern, .. } => {
                o.put("k", J::s("DerefPattern"));
                o.put("sub", self.pat(subpattern));
            }
            PatKind::Constant { value } => {
                o.put("k", J::s("Constant"));
                o.put("v", J::s(format!("{}", value)));
            }
            PatKind::Range(r) => {
                o.put("k", J::s("Range"));
                o.put("v", J::s(format!("{:?}", r)));
            }
            PatKind::Slice {
                prefix,
                slice,
                suffix,
            }
            | PatKind::Array {
                prefix,
                slice,
                suffix,
            } => {
                o.put("k", J::s("Slice"));
                let pv: Vec<J> = prefix.iter().map(|x| self.pat(x)).collect();
                let sv: Vec<J> = suffix.iter().map(|x| self.pat(x)).collect();
                o.put("prefix", J::Arr(pv));
                o.put("suffix", J::Arr(sv));
                if let Some(s) = slice {
                    o.put("slice", self.pat(s));
                }
            }
            PatKind::Or { pats } => {
                o.put("k", J::s("Or"));
                let pv: Vec<J> = pats.iter().map(|x| self.pat(x)).collect();
                o.put("pats", J::Arr(pv));
            }
            PatKind::Guard { subpattern, condition } => {
                o.put("k", J::s("Guard"));
                o.put("sub", self.pat(subpattern));
                o.put("cond", self.expr(*condition));
            }
            PatKind::Never => o.put("k", J::s("Never")),
            PatKind::Error(_) => o.put("k", J::s("Error")),
        }
        o
    }
}
