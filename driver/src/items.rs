//! Item-level facts: ADTs (with a deep interior-mutability walk), statics,
//! impls, and trait-implementor queries answered by the compiler.
use crate::json::J;
use crate::util::*;
use rustc_hir::def::DefKind;
use rustc_hir::def_id::{DefId, LOCAL_CRATE};
use rustc_middle::ty::{self, Ty, TyCtxt};
use std::collections::HashSet;

/// Walk `ty` through fields, references, pointers, boxes, slices, arrays and
/// tuples.  Records every path on which `UnsafeCell` is reached, and which
/// generic parameters / projections are reached (those are the caller's choice).
struct CellWalk<'tcx> {
    tcx: TyCtxt<'tcx>,
    seen: HashSet<Ty<'tcx>>,
    cells: Vec<String>,
    params: HashSet<String>,
    opaque: HashSet<String>,
    adts_visited: usize,
}

impl<'tcx> CellWalk<'tcx> {
    fn walk(&mut self, ty: Ty<'tcx>, path: &str, depth: usize) {
        if depth > 40 || !self.seen.insert(ty) {
            return;
        }
        match ty.kind() {
            ty::Adt(adt, args) => {
                self.adts_visited += 1;
                if adt.is_unsafe_cell() {
                    self.cells.push(format!("{} -> {}", path, ty));
                    return;
                }
                if adt.is_phantom_data() {
                    // PhantomData<T> owns no T: nothing is stored
                    return;
                }
                for v in adt.variants() {
                    for f in v.fields.iter() {
                        let fty = f.ty(self.tcx, args);
                        let p = format!("{}.{}", path, f.name);
                        self.walk(fty, &p, depth + 1);
                    }
                }
            }
            ty::Ref(_, inner, _) => self.walk(*inner, &format!("{}.&", path), depth + 1),
            ty::RawPtr(inner, _) => self.walk(*inner, &format!("{}.*", path), depth + 1),
            ty::Pat(inner, _) => self.walk(*inner, path, depth + 1),
            ty::Slice(inner) | ty::Array(inner, _) => {
                self.walk(*inner, &format!("{}[]", path), depth + 1)
            }
            ty::Tuple(ts) => {
                for (i, t) in ts.iter().enumerate() {
                    self.walk(t, &format!("{}.{}", path, i), depth + 1);
                }
            }
            ty::Param(p) => {
                self.params.insert(format!("{}", p));
            }
            ty::Alias(..) => {
                self.params.insert(format!("{}", ty));
            }
            ty::Bool
            | ty::Char
            | ty::Int(_)
            | ty::Uint(_)
            | ty::Float(_)
            | ty::Str
            | ty::Never => {}
            ty::FnPtr(..) | ty::FnDef(..) => {}
            _ => {
                self.opaque.insert(format!("{}", ty));
            }
        }
    }
}

fn jset(s: &HashSet<String>) -> J {
    let mut v: Vec<&String> = s.iter().collect();
    v.sort();
    J::Arr(v.into_iter().map(|x| J::s(x.clone())).collect())
}

pub fn dump_adts<'tcx>(tcx: TyCtxt<'tcx>) -> J {
    let mut out = Vec::new();
    for id in tcx.hir_free_items() {
        let did = id.owner_id.to_def_id();
        let kind = tcx.def_kind(did);
        if !matches!(kind, DefKind::Struct | DefKind::Enum | DefKind::Union) {
            continue;
        }
        let adt = tcx.adt_def(did);
        let mut o = J::obj();
        o.put("path", J::s(def_str(tcx, did)));
        o.put("kind", J::s(format!("{:?}", kind)));
        o.put("vis", J::s(format!("{:?}", tcx.visibility(did))));
        o.put("span", J::s(span_str(tcx, tcx.def_span(did))));
        let self_ty = tcx.type_of(did).instantiate_identity().skip_norm_wip();
        o.put("ty", J::s(ty_str(self_ty)));
        let mut vs = Vec::new();
        for v in adt.variants() {
            let mut fs = Vec::new();
            for f in v.fields.iter() {
                let fty = tcx.type_of(f.did).instantiate_identity().skip_norm_wip();
                fs.push(
                    J::obj()
                        .set("name", J::s(f.name.to_string()))
                        .set("ty", J::s(ty_str(fty)))
                        .set("vis", J::s(format!("{:?}", f.vis))),
                );
            }
            vs.push(
                J::obj()
                    .set("name", J::s(v.name.to_string()))
                    .set("fields", J::Arr(fs)),
            );
        }
        o.put("variants", J::Arr(vs));
        let mut w = CellWalk {
            tcx,
            seen: HashSet::new(),
            cells: Vec::new(),
            params: HashSet::new(),
            opaque: HashSet::new(),
            adts_visited: 0,
        };
        w.walk(self_ty, &def_str(tcx, did), 0);
        o.put(
            "cell_paths",
            J::Arr(w.cells.iter().map(|c| J::s(c.clone())).collect()),
        );
        o.put("reached_params", jset(&w.params));
        o.put("reached_opaque", jset(&w.opaque));
        o.put("types_walked", J::Num(w.seen.len() as i64));
        o.put("adts_walked", J::Num(w.adts_visited as i64));
        // the compiler's own shallow answer
        let env = ty::TypingEnv::post_analysis(tcx, did);
        o.put("is_freeze", J::Bool(self_ty.is_freeze(tcx, env)));
        out.push(o);
    }
    J::Arr(out)
}

pub fn dump_statics<'tcx>(tcx: TyCtxt<'tcx>) -> J {
    let mut out = Vec::new();
    for ldid in tcx.hir_crate_items(()).definitions() {
        let did = ldid.to_def_id();
        let kind = tcx.def_kind(did);
        match kind {
            DefKind::Static { .. } => {
                out.push(
                    J::obj()
                        .set("path", J::s(def_str(tcx, did)))
                        .set("kind", J::s(format!("{:?}", kind)))
                        .set("span", J::s(span_str(tcx, tcx.def_span(did)))),
                );
            }
            _ => {}
        }
    }
    J::Arr(out)
}

/// local modules (their def paths): lets the consumer name items independently of the private module layout
pub fn dump_modules<'tcx>(tcx: TyCtxt<'tcx>) -> J {
    let mut out = Vec::new();
    for ldid in tcx.hir_crate_items(()).definitions() {
        let did = ldid.to_def_id();
        if matches!(tcx.def_kind(did), DefKind::Mod) {
            out.push(
                J::obj()
                    .set("path", J::s(def_str(tcx, did)))
                    .set("vis", J::s(format!("{:?}", tcx.visibility(did)))),
            );
        }
    }
    J::Arr(out)
}

pub fn dump_impls<'tcx>(tcx: TyCtxt<'tcx>) -> J {
    let mut out = Vec::new();
    for ldid in tcx.hir_crate_items(()).definitions() {
        let did = ldid.to_def_id();
        if let DefKind::Impl { of_trait } = tcx.def_kind(did) {
            let self_ty = tcx.type_of(did).instantiate_identity().skip_norm_wip();
            let mut o = J::obj();
            o.put("self", J::s(ty_str(self_ty)));
            o.put("span", J::s(span_str(tcx, tcx.def_span(did))));
            o.put("expn", expn_info(tcx, tcx.def_span(did)));
            if of_trait {
                let tr = tcx.impl_trait_ref(did).instantiate_identity().skip_norm_wip();
                o.put("trait", J::s(def_str(tcx, tr.def_id)));
                o.put("trait_ref", J::s(format!("{}", tr)));
                o.put(
                    "unsafe",
                    J::Bool(tcx.trait_def(tr.def_id).safety.is_unsafe()),
                );
            }
            let mut items = Vec::new();
            for it in tcx.associated_items(did).in_definition_order() {
                let mut io = J::obj();
                io.put("name", J::s(it.name().to_string()));
                io.put("kind", J::s(format!("{:?}", it.kind).split(['{', '(']).next().unwrap_or("").trim().to_string()));
                if matches!(tcx.def_kind(it.def_id), DefKind::AssocConst { .. }) {
                    if let Ok(v) = tcx.const_eval_poly(it.def_id) {
                        io.put("value", J::s(format!("{:?}", v)));
                        if let Some(s) = v.try_to_scalar_int() {
                            io.put("int", J::s(format!("{:?}", s)));
                        }
                    }
                }
                items.push(io);
            }
            o.put("items", J::Arr(items));
            out.push(o);
        }
    }
    J::Arr(out)
}

fn find_trait<'tcx>(tcx: TyCtxt<'tcx>, path: &str) -> Option<DefId> {
    for t in tcx.all_traits_including_private() {
        if def_str(tcx, t) == path {
            return Some(t);
        }
    }
    None
}

pub fn implementors<'tcx>(tcx: TyCtxt<'tcx>, tr: DefId) -> Vec<Ty<'tcx>> {
    let mut v = Vec::new();
    for imp in tcx.all_impls(tr) {
        let r = tcx.impl_trait_ref(imp).instantiate_identity().skip_norm_wip();
        v.push(r.self_ty());
    }
    v
}

/// Implementor lists of the (sealed) ndarray dimension traits, as the compiler
/// sees them from this crate.
pub fn dump_trait_queries<'tcx>(tcx: TyCtxt<'tcx>) -> J {
    let mut o = J::obj();
    for name in ["ndarray::RemoveAxis", "ndarray::Dimension"] {
        match find_trait(tcx, name) {
            Some(t) => {
                let mut tys: Vec<String> =
                    implementors(tcx, t).into_iter().map(ty_str).collect();
                tys.sort();
                o.put(name, J::Arr(tys.into_iter().map(J::s).collect()));
            }
            None => o.put(name, J::Null),
        }
    }
    let _ = LOCAL_CRATE;
    o
}
