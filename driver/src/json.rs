//! Minimal JSON value + writer (the driver has zero cargo dependencies).
use std::fmt::Write;

#[derive(Clone, Debug)]
pub enum J {
    Null,
    Bool(bool),
    Num(i64),
    Str(String),
    Arr(Vec<J>),
    Obj(Vec<(String, J)>),
}

impl J {
    pub fn s<T: Into<String>>(t: T) -> J {
        J::Str(t.into())
    }
    pub fn obj() -> J {
        J::Obj(Vec::new())
    }
    pub fn set<T: Into<String>>(mut self, k: T, v: J) -> J {
        if let J::Obj(ref mut o) = self {
            o.push((k.into(), v));
        }
        self
    }
    pub fn put<T: Into<String>>(&mut self, k: T, v: J) {
        if let J::Obj(ref mut o) = self {
            o.push((k.into(), v));
        }
    }
    pub fn write(&self, out: &mut String) {
        match self {
            J::Null => out.push_str("null"),
            J::Bool(b) => out.push_str(if *b { "true" } else { "false" }),
            J::Num(n) => {
                let _ = write!(out, "{}", n);
            }
            J::Str(s) => esc(s, out),
            J::Arr(a) => {
                out.push('[');
                for (i, v) in a.iter().enumerate() {
                    if i > 0 {
                        out.push(',');
                    }
                    v.write(out);
                }
                out.push(']');
            }
            J::Obj(o) => {
                out.push('{');
                for (i, (k, v)) in o.iter().enumerate() {
                    if i > 0 {
                        out.push(',');
                    }
                    esc(k, out);
                    out.push(':');
                    v.write(out);
                }
                out.push('}');
            }
        }
    }
}

fn esc(s: &str, out: &mut String) {
    out.push('"');
    for c in s.chars() {
        match c {
            '"' => out.push_str("\\\""),
            '\\' => out.push_str("\\\\"),
            '\n' => out.push_str("\\n"),
            '\r' => out.push_str("\\r"),
            '\t' => out.push_str("\\t"),
            c if (c as u32) < 0x20 => {
                let _ = write!(out, "\\u{:04x}", c as u32);
            }
            c => out.push(c),
        }
    }
    out.push('"');
}
