//! MIR of every fn-like body of the local crate: CFG + resolved callees.
//! Optionally (NDI_MONO) the monomorphic instances reachable from the crate.
use crate::json::J;
use crate::util::*;
use rustc_hir::def::DefKind;
use rustc_middle::mir::{self, Operand, Rvalue, StatementKind, TerminatorKind};
use rustc_middle::ty::{self, Ty, TyCtxt};

fn operand<'tcx>(tcx: TyCtxt<'tcx>, body: &mir::Body<'tcx>, op: &Operand<'tcx>) -> J {
    let mut o = J::obj();
    match op {
        Operand::Copy(p) => {
            o.put("k", J::s("copy"));
            o.put("p", J::s(format!("{:?}", p)));
            o.put("l", J::Num(p.local.as_u32() as i64));
        }
        Operand::Move(p) => {
            o.put("k", J::s("move"));
            o.put("p", J::s(format!("{:?}", p)));
            o.put("l", J::Num(p.local.as_u32() as i64));
        }
        Operand::Constant(c) => {
            o.put("k", J::s("const"));
            o.put("c", J::s(format!("{}", c.const_)));
            let cty = c.const_.ty();
            o.put("ty", J::s(ty_str(cty)));
            if let ty::FnDef(d, a) = cty.kind() {
                o.put("fn", J::s(def_str(tcx, *d)));
                o.put("gargs", gargs(a));
            }
            if let Some(d) = c.check_static_ptr(tcx) {
                o.put("static", J::s(def_str(tcx, d)));
            }
        }
        #[allow(unreachable_patterns)]
        _ => {
            o.put("k", J::s("other"));
            o.put("dbg", J::s(format!("{:?}", op)));
        }
    }
    let _ = body;
    o
}

fn callee<'tcx>(tcx: TyCtxt<'tcx>, owner: rustc_hir::def_id::DefId, fty: Ty<'tcx>) -> J {
    match fty.kind() {
        ty::FnDef(did, args) => {
            let mut o = J::obj();
            o.put("path", J::s(def_str(tcx, *did)));
            o.put("crate", J::s(crate_of(tcx, *did)));
            o.put("gargs", gargs(args));
            if let Some(tr) = tcx.trait_of_assoc(*did) {
                o.put("trait", J::s(def_str(tcx, tr)));
            }
            let env = ty::TypingEnv::post_analysis(tcx, owner);
            if let Ok(Some(inst)) = ty::Instance::try_resolve(tcx, env, *did, args) {
                if inst.def_id() != *did {
                    o.put("resolved", J::s(def_str(tcx, inst.def_id())));
                    o.put("resolved_crate", J::s(crate_of(tcx, inst.def_id())));
                }
            }
            o
        }
        _ => J::obj().set("indirect", J::s(ty_str(fty))),
    }
}

pub fn body_json<'tcx>(
    tcx: TyCtxt<'tcx>,
    owner: rustc_hir::def_id::DefId,
    body: &mir::Body<'tcx>,
) -> J {
    let mut b = J::obj();
    b.put("arg_count", J::Num(body.arg_count as i64));
    let locals: Vec<J> = body
        .local_decls
        .iter()
        .map(|d| J::s(ty_str(d.ty)))
        .collect();
    b.put("locals", J::Arr(locals));
    let mut names = Vec::new();
    for vdi in body.var_debug_info.iter() {
        names.push(
            J::obj()
                .set("name", J::s(vdi.name.to_string()))
                .set("v", J::s(format!("{:?}", vdi.value))),
        );
    }
    b.put("vars", J::Arr(names));
    let mut blocks = Vec::new();
    for (_bb, data) in body.basic_blocks.iter_enumerated() {
        let mut bo = J::obj();
        bo.put("cleanup", J::Bool(data.is_cleanup));
        let mut sv = Vec::new();
        for st in data.statements.iter() {
            let mut so = J::obj();
            match &st.kind {
                StatementKind::Assign(bx) => {
                    let (place, rv) = &**bx;
                    so.put("k", J::s("assign"));
                    so.put("lhs", J::s(format!("{:?}", place)));
                    so.put("l", J::Num(place.local.as_u32() as i64));
                    let (rk, ops): (&str, Vec<J>) = match rv {
                        Rvalue::Use(op, ..) => ("use", vec![operand(tcx, body, op)]),
                        Rvalue::Ref(_, bk, p) => (
                            "ref",
                            vec![J::obj()
                                .set("bk", J::s(format!("{:?}", bk)))
                                .set("p", J::s(format!("{:?}", p)))
                                .set("l", J::Num(p.local.as_u32() as i64))],
                        ),
                        Rvalue::BinaryOp(op, bx) => (
                            "binop",
                            vec![
                                J::s(format!("{:?}", op)),
                                operand(tcx, body, &bx.0),
                                operand(tcx, body, &bx.1),
                            ],
                        ),
                        Rvalue::UnaryOp(op, a) => (
                            "unop",
                            vec![J::s(format!("{:?}", op)), operand(tcx, body, a)],
                        ),
                        Rvalue::Cast(k, a, t) => (
                            "cast",
                            vec![
                                J::s(format!("{:?}", k)),
                                operand(tcx, body, a),
                                J::s(ty_str(*t)),
                            ],
                        ),
                        Rvalue::Discriminant(p) => (
                            "discr",
                            vec![J::obj()
                                .set("p", J::s(format!("{:?}", p)))
                                .set("l", J::Num(p.local.as_u32() as i64))],
                        ),
                        Rvalue::Aggregate(k, ops) => {
                            let mut v = vec![J::s(format!("{:?}", k).chars().take(160).collect::<String>())];
                            for o in ops.iter() {
                                v.push(operand(tcx, body, o));
                            }
                            ("aggregate", v)
                        }
                        Rvalue::RawPtr(k, p) => (
                            "rawptr",
                            vec![J::obj()
                                .set("kind", J::s(format!("{:?}", k)))
                                .set("p", J::s(format!("{:?}", p)))],
                        ),
                        other => ("other", vec![J::s(format!("{:?}", other).chars().take(200).collect::<String>())]),
                    };
                    so.put("rv", J::s(rk));
                    so.put("ops", J::Arr(ops));
                }
                StatementKind::StorageLive(_)
                | StatementKind::StorageDead(_)
                | StatementKind::Nop
                | StatementKind::FakeRead(..)
                | StatementKind::AscribeUserType(..)
                | StatementKind::Coverage(..)
                | StatementKind::PlaceMention(..)
                | StatementKind::ConstEvalCounter => continue,
                other => {
                    so.put("k", J::s("other"));
                    so.put("dbg", J::s(format!("{:?}", other).chars().take(200).collect::<String>()));
                }
            }
            so.put("sp", J::s(span_str(tcx, st.source_info.span)));
            sv.push(so);
        }
        bo.put("stmts", J::Arr(sv));
        let term = data.terminator();
        let mut to = J::obj();
        to.put("sp", J::s(span_str(tcx, term.source_info.span)));
        if term.source_info.span.from_expansion() {
            to.put("expn", expn_info(tcx, term.source_info.span));
        }
        match &term.kind {
            TerminatorKind::Goto { target } => {
                to.put("k", J::s("goto"));
                to.put("t", J::Arr(vec![J::Num(target.as_u32() as i64)]));
            }
            TerminatorKind::SwitchInt { discr, targets } => {
                to.put("k", J::s("switch"));
                to.put("discr", operand(tcx, body, discr));
                let mut vals = Vec::new();
                let mut ts = Vec::new();
                for (v, t) in targets.iter() {
                    vals.push(J::s(format!("{}", v)));
                    ts.push(J::Num(t.as_u32() as i64));
                }
                ts.push(J::Num(targets.otherwise().as_u32() as i64));
                to.put("vals", J::Arr(vals));
                to.put("t", J::Arr(ts));
            }
            TerminatorKind::Return => {
                to.put("k", J::s("return"));
                to.put("t", J::Arr(vec![]));
            }
            TerminatorKind::Unreachable => {
                to.put("k", J::s("unreachable"));
                to.put("t", J::Arr(vec![]));
            }
            TerminatorKind::UnwindResume | TerminatorKind::UnwindTerminate(_) => {
                to.put("k", J::s("resume"));
                to.put("t", J::Arr(vec![]));
            }
            TerminatorKind::Drop { place, target, unwind, .. } => {
                to.put("k", J::s("drop"));
                to.put("p", J::s(format!("{:?}", place)));
                to.put("t", J::Arr(vec![J::Num(target.as_u32() as i64)]));
                if let mir::UnwindAction::Cleanup(c) = unwind {
                    to.put("unwind", J::Num(c.as_u32() as i64));
                }
            }
            TerminatorKind::Call {
                func,
                args,
                destination,
                target,
                unwind,
                ..
            } => {
                to.put("k", J::s("call"));
                let fty = func.ty(&body.local_decls, tcx);
                to.put("callee", callee(tcx, owner, fty));
                let a: Vec<J> = args.iter().map(|a| operand(tcx, body, &a.node)).collect();
                to.put("args", J::Arr(a));
                to.put("dest", J::s(format!("{:?}", destination)));
                to.put("dl", J::Num(destination.local.as_u32() as i64));
                to.put(
                    "t",
                    J::Arr(match target {
                        Some(t) => vec![J::Num(t.as_u32() as i64)],
                        None => vec![],
                    }),
                );
                if let mir::UnwindAction::Cleanup(c) = unwind {
                    to.put("unwind", J::Num(c.as_u32() as i64));
                }
            }
            TerminatorKind::Assert {
                cond,
                expected,
                msg,
                target,
                unwind,
            } => {
                to.put("k", J::s("assert"));
                to.put("cond", operand(tcx, body, cond));
                to.put("expected", J::Bool(*expected));
                to.put("msg", J::s(format!("{:?}", msg).chars().take(120).collect::<String>()));
                to.put("t", J::Arr(vec![J::Num(target.as_u32() as i64)]));
                if let mir::UnwindAction::Cleanup(c) = unwind {
                    to.put("unwind", J::Num(c.as_u32() as i64));
                }
            }
            TerminatorKind::FalseEdge { real_target, .. } => {
                to.put("k", J::s("goto"));
                to.put("t", J::Arr(vec![J::Num(real_target.as_u32() as i64)]));
            }
            TerminatorKind::FalseUnwind { real_target, .. } => {
                to.put("k", J::s("goto"));
                to.put("t", J::Arr(vec![J::Num(real_target.as_u32() as i64)]));
            }
            other => {
                to.put("k", J::s("other"));
                to.put("dbg", J::s(format!("{:?}", other).chars().take(200).collect::<String>()));
                let ts: Vec<J> = term
                    .successors()
                    .map(|t| J::Num(t.as_u32() as i64))
                    .collect();
                to.put("t", J::Arr(ts));
            }
        }
        bo.put("term", to);
        blocks.push(bo);
    }
    b.put("blocks", J::Arr(blocks));
    b
}

pub fn dump_mir<'tcx>(tcx: TyCtxt<'tcx>) -> J {
    let mut out = Vec::new();
    for ldid in tcx.hir_body_owners() {
        let kind = tcx.def_kind(ldid);
        if !matches!(kind, DefKind::Fn | DefKind::AssocFn | DefKind::Closure) {
            continue;
        }
        let did = ldid.to_def_id();
        let body = tcx.optimized_mir(did);
        let mut b = body_json(tcx, did, body);
        b.put("def", J::s(def_str(tcx, did)));
        b.put("kind", J::s(format!("{:?}", kind)));
        b.put("span", J::s(span_str(tcx, tcx.def_span(did))));
        out.push(b);
    }
    J::Arr(out)
}

/// Monomorphic instances (needs `cargo build`, not `check`): for every
/// instance, the instantiated types of the calls we care about
/// (`TypeId::of::<X>` and `cast_unchecked::<A, B>`).
pub fn dump_mono<'tcx>(tcx: TyCtxt<'tcx>) -> J {
    let parts = tcx.collect_and_partition_mono_items(());
    let mut out = Vec::new();
    let mut n_items = 0i64;
    let mut seen = std::collections::HashSet::new();
    for cgu in parts.codegen_units.iter() {
        for (item, _) in cgu.items().iter() {
            n_items += 1;
            let rustc_middle::mono::MonoItem::Fn(inst) = item else {
                continue;
            };
            if !seen.insert(*inst) {
                continue;
            }
            let did = inst.def_id();
            let path = def_str(tcx, did);
            let krate = crate_of(tcx, did);
            if krate != "ndarray_interp" {
                continue;
            }
            let mut o = J::obj();
            o.put("path", J::s(path));
            o.put("gargs", gargs(inst.args));
            // interesting calls inside this instance
            if !matches!(inst.def, ty::InstanceKind::Item(_)) {
                out.push(o);
                continue;
            }
            let body = tcx.instance_mir(inst.def);
            let env = ty::TypingEnv::fully_monomorphized();
            let mut calls = Vec::new();
            for data in body.basic_blocks.iter() {
                if let TerminatorKind::Call { func, .. } = &data.terminator().kind {
                    let fty = func.ty(&body.local_decls, tcx);
                    let fty = inst.instantiate_mir_and_normalize_erasing_regions(
                        tcx,
                        env,
                        ty::EarlyBinder::bind(fty),
                    );
                    if let ty::FnDef(cd, cargs) = fty.kind() {
                        let cp = def_str(tcx, *cd);
                        let tys: Vec<Ty<'tcx>> = cargs.types().collect();
                        if is_identity_cast(tcx, *cd, tys.len()) || cp.ends_with("TypeId::of") {
                            let mut co = J::obj();
                            co.put("path", J::s(cp));
                            co.put("gargs", gargs(cargs));
                            if tys.len() == 2 {
                                co.put("equal", J::Bool(tys[0] == tys[1]));
                            }
                            co.put(
                                "sp",
                                J::s(span_str(tcx, data.terminator().source_info.span)),
                            );
                            calls.push(co);
                        }
                    }
                }
            }
            o.put("calls", J::Arr(calls));
            out.push(o);
        }
    }
    J::obj()
        .set("n_items", J::Num(n_items))
        .set("instances", J::Arr(out))
}
