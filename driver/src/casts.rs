//! Proof obligations for the unchecked identity cast.
//!
//! For every call `cast_unchecked::<A, B>` in a generic body, and every pair of
//! `TypeId::of::<P>()`, `TypeId::of::<C>()` calls in the same body where `P`
//! is a type parameter, substitute P := C, then instantiate every remaining
//! type parameter that is bounded by one of ndarray's (sealed) dimension traits
//! with each of its implementors (listed by the compiler), drop instantiations
//! that violate the item's own where-clauses, normalise, and report whether
//! A and B are the same type.
use crate::items::implementors;
use crate::json::J;
use crate::util::*;
use rustc_hir::def::DefKind;
use rustc_hir::def_id::DefId;
use rustc_middle::mir::TerminatorKind;
use rustc_middle::ty::{self, Ty, TyCtxt, TypeFoldable, TypeFolder, TypeSuperFoldable, TypeVisitableExt};

struct Subst<'tcx> {
    tcx: TyCtxt<'tcx>,
    map: Vec<(Ty<'tcx>, Ty<'tcx>)>,
}

impl<'tcx> TypeFolder<TyCtxt<'tcx>> for Subst<'tcx> {
    fn cx(&self) -> TyCtxt<'tcx> {
        self.tcx
    }
    fn fold_ty(&mut self, t: Ty<'tcx>) -> Ty<'tcx> {
        for (from, to) in &self.map {
            if t == *from {
                return *to;
            }
        }
        t.super_fold_with(self)
    }
}

fn find_trait<'tcx>(tcx: TyCtxt<'tcx>, path: &str) -> Option<DefId> {
    tcx.all_traits_including_private()
        .find(|t| def_str(tcx, *t) == path)
}

pub fn dump_cast_obligations<'tcx>(tcx: TyCtxt<'tcx>) -> J {
    let mut out = Vec::new();
    let dim_tr = find_trait(tcx, "ndarray::Dimension");
    let rm_tr = find_trait(tcx, "ndarray::RemoveAxis");
    let (Some(dim_tr), Some(rm_tr)) = (dim_tr, rm_tr) else {
        return J::Arr(out);
    };
    let dim_impls = implementors(tcx, dim_tr);
    let rm_impls = implementors(tcx, rm_tr);
    let generic_impl = dim_impls.iter().chain(rm_impls.iter()).any(|t| t.has_param());

    for ldid in tcx.hir_body_owners() {
        let kind = tcx.def_kind(ldid);
        if !matches!(kind, DefKind::Fn | DefKind::AssocFn | DefKind::Closure) {
            continue;
        }
        let did = ldid.to_def_id();
        let body = tcx.optimized_mir(did);
        let mut casts = Vec::new();
        let mut typeids = Vec::new();
        for data in body.basic_blocks.iter() {
            if let TerminatorKind::Call { func, .. } = &data.terminator().kind {
                let fty = func.ty(&body.local_decls, tcx);
                if let ty::FnDef(cd, cargs) = fty.kind() {
                    let cp = def_str(tcx, *cd);
                    let tys: Vec<Ty<'tcx>> = cargs.types().collect();
                    if cd.is_local() && is_identity_cast(tcx, *cd, tys.len()) {
                        casts.push((tys[0], tys[1], data.terminator().source_info.span));
                    } else if cp.ends_with("TypeId::of") && tys.len() == 1 {
                        typeids.push(tys[0]);
                    }
                }
            }
        }
        if casts.is_empty() {
            continue;
        }
        let owner = tcx.typeck_root_def_id(did);
        let env = ty::TypingEnv::post_analysis(tcx, owner);
        let preds = tcx.predicates_of(owner).instantiate_identity(tcx);
        // where-clauses of the form `X: Dimension` / `X: RemoveAxis`
        let mut bounds: Vec<(Ty<'tcx>, DefId)> = Vec::new();
        for (clause, _) in preds.predicates.iter().zip(preds.spans.iter()) {
            let clause = clause.clone().skip_norm_wip();
            if let Some(tp) = clause.as_trait_clause() {
                let tp = tp.skip_binder();
                let td = tp.trait_ref.def_id;
                if td == dim_tr || td == rm_tr {
                    bounds.push((tp.trait_ref.self_ty(), td));
                }
            }
        }
        for (a, b, sp) in casts.iter() {
            let mut site = J::obj();
            site.put("in", J::s(def_str(tcx, did)));
            site.put("sp", J::s(span_str(tcx, *sp)));
            site.put("A", J::s(ty_str(*a)));
            site.put("B", J::s(ty_str(*b)));
            site.put("generic_impl", J::Bool(generic_impl));
            site.put(
                "typeids",
                J::Arr(typeids.iter().map(|t| J::s(ty_str(*t))).collect()),
            );
            site.put(
                "bounds",
                J::Arr(
                    bounds
                        .iter()
                        .map(|(t, d)| J::s(format!("{}: {}", t, def_str(tcx, *d))))
                        .collect(),
                ),
            );
            let mut guards = Vec::new();
            for p in typeids.iter() {
                if !matches!(p.kind(), ty::Param(_)) {
                    continue;
                }
                for c in typeids.iter() {
                    if c.has_param() {
                        continue;
                    }
                    let mut g = J::obj();
                    g.put("P", J::s(ty_str(*p)));
                    g.put("C", J::s(ty_str(*c)));
                    let mut s1 = Subst {
                        tcx,
                        map: vec![(*p, *c)],
                    };
                    let a1 = a.fold_with(&mut s1);
                    let b1 = b.fold_with(&mut s1);
                    // remaining dimension-bounded parameters
                    let mut dparams: Vec<Ty<'tcx>> = Vec::new();
                    for (t, _) in bounds.iter() {
                        if matches!(t.kind(), ty::Param(_)) && *t != *p && !dparams.contains(t) {
                            dparams.push(*t);
                        }
                    }
                    g.put(
                        "dim_params",
                        J::Arr(dparams.iter().map(|t| J::s(ty_str(*t))).collect()),
                    );
                    // enumerate the product of implementors
                    let mut insts: Vec<Vec<(Ty<'tcx>, Ty<'tcx>)>> = vec![vec![(*p, *c)]];
                    for dp in dparams.iter() {
                        let mut next = Vec::new();
                        for base in insts.iter() {
                            for imp in dim_impls.iter() {
                                let mut m = base.clone();
                                m.push((*dp, *imp));
                                next.push(m);
                            }
                        }
                        insts = next;
                    }
                    let mut obl = Vec::new();
                    for m in insts.iter() {
                        let mut s = Subst {
                            tcx,
                            map: m.clone(),
                        };
                        // where-clauses must hold for this instantiation
                        let mut admissible = true;
                        let mut why = String::new();
                        for (bt, btr) in bounds.iter() {
                            let t = bt.fold_with(&mut s);
                            let t = tcx.try_normalize_erasing_regions(env, ty::Unnormalized::new(t)).unwrap_or(t);
                            if t.has_param() {
                                continue;
                            }
                            let set = if *btr == rm_tr { &rm_impls } else { &dim_impls };
                            if !set.contains(&t) {
                                admissible = false;
                                why = format!("{}: {} does not hold", t, def_str(tcx, *btr));
                                break;
                            }
                        }
                        let a2 = a1.fold_with(&mut s);
                        let b2 = b1.fold_with(&mut s);
                        let a3 = tcx.try_normalize_erasing_regions(env, ty::Unnormalized::new(a2));
                        let b3 = tcx.try_normalize_erasing_regions(env, ty::Unnormalized::new(b2));
                        let mut oo = J::obj();
                        oo.put(
                            "inst",
                            J::Arr(
                                m.iter()
                                    .map(|(f, t)| J::s(format!("{} := {}", f, t)))
                                    .collect(),
                            ),
                        );
                        oo.put("admissible", J::Bool(admissible));
                        if !admissible {
                            oo.put("why", J::s(why));
                        }
                        match (a3, b3) {
                            (Ok(a3), Ok(b3)) => {
                                oo.put("A", J::s(ty_str(a3)));
                                oo.put("B", J::s(ty_str(b3)));
                                oo.put("equal", J::Bool(a3 == b3));
                            }
                            _ => {
                                oo.put("A", J::s(ty_str(a2)));
                                oo.put("B", J::s(ty_str(b2)));
                                oo.put("norm_failed", J::Bool(true));
                                oo.put("equal", J::Bool(false));
                            }
                        }
                        obl.push(oo);
                    }
                    g.put("obligations", J::Arr(obl));
                    guards.push(g);
                }
            }
            site.put("guards", J::Arr(guards));
            out.push(site);
        }
    }
    J::Arr(out)
}
