use crate::json::J;
use rustc_hir::def_id::DefId;
use rustc_middle::ty::{GenericArgsRef, Ty, TyCtxt};
use rustc_span::Span;

/// "file:line:col-line:col" of the *call-site* of the outermost expansion
/// (so that spans inside macros point into the user's source).
pub fn span_str(tcx: TyCtxt<'_>, sp: Span) -> String {
    let sp = sp.source_callsite();
    let sm = tcx.sess.source_map();
    let lo = sm.lookup_char_pos(sp.lo());
    let hi = sm.lookup_char_pos(sp.hi());
    let file = match &lo.file.name {
        rustc_span::FileName::Real(r) => match r.local_path() {
            Some(p) => p.to_string_lossy().to_string(),
            None => format!("{:?}", lo.file.name),
        },
        other => format!("{:?}", other),
    };
    format!(
        "{}:{}:{}-{}:{}",
        file,
        lo.line,
        lo.col.0 + 1,
        hi.line,
        hi.col.0 + 1
    )
}

/// Name of the outermost macro this span was expanded from, or Null.
pub fn expn_info(tcx: TyCtxt<'_>, sp: Span) -> J {
    if !sp.from_expansion() {
        return J::Null;
    }
    // walk to the outermost expansion
    let mut names = Vec::new();
    let mut cur = sp;
    let mut guard = 0;
    while cur.from_expansion() && guard < 32 {
        let data = cur.ctxt().outer_expn_data();
        let name = match data.macro_def_id {
            Some(d) => tcx.def_path_str(d),
            None => format!("{:?}", data.kind),
        };
        names.push(J::s(name));
        cur = data.call_site;
        guard += 1;
    }
    J::Arr(names)
}

pub fn ty_str<'tcx>(ty: Ty<'tcx>) -> String {
    format!("{}", ty)
}

pub fn def_str(tcx: TyCtxt<'_>, d: DefId) -> String {
    tcx.def_path_str(d)
}

/// the crate's unchecked identity cast, whatever it is called: an `unsafe fn` of the analysed library with exactly two type parameters
pub fn is_identity_cast(tcx: TyCtxt<'_>, d: DefId, n_type_args: usize) -> bool {
    if n_type_args != 2 || tcx.crate_name(d.krate).as_str() != "ndarray_interp" {
        return false;
    }
    if !matches!(tcx.def_kind(d), rustc_hir::def::DefKind::Fn) {
        return false;
    }
    let sig = tcx.fn_sig(d).instantiate_identity().skip_norm_wip();
    sig.safety().is_unsafe()
}

pub fn crate_of(tcx: TyCtxt<'_>, d: DefId) -> String {
    tcx.crate_name(d.krate).to_string()
}

pub fn gargs<'tcx>(args: GenericArgsRef<'tcx>) -> J {
    J::Arr(
        args.iter()
            .filter(|a| a.as_region().is_none())
            .map(|a| J::s(format!("{}", a)))
            .collect(),
    )
}
