#!/usr/bin/env python3
"""Regenerates seeded/README.md and the tables of DESIGN.md section 5 from selftest/expect.json and seeded/*/meta.json."""
import json, os, re
HERE = os.path.dirname(os.path.dirname(os.path.abspath(__file__)))
exp = json.load(open(os.path.join(HERE, 'selftest', 'expect.json')))
rows = {1: [], 2: [], 3: [], 4: [], 5: [], 6: [], 7: [], 8: []}
n = c = 0
missed = []
for sid in sorted(os.listdir(os.path.join(HERE, 'seeded'))):
    mp = os.path.join(HERE, 'seeded', sid, 'meta.json')
    if not os.path.exists(mp):
        continue
    m = json.load(open(mp))
    e = exp.get('seeded/' + sid)
    if e is not None:       # the kill matrix is the reference for what fires today
        m['checks_that_fire'] = e['fires']
        m['caught_by_target_check'] = m['breaks_property'] in e['fires']
        if not m['caught_by_target_check']:
            m['why_not_caught'] = ("the change replaces a formula by one that is algebraically identical over the reals and only overflows / loses accuracy in "
                                   "floating-point or integer arithmetic; the technique decides over exact field arithmetic (DESIGN.md section 4)")
        else:
            m.pop('why_not_caught', None)
        json.dump(m, open(mp, 'w'), indent=1)
    n += 1
    c += bool(m['caught_by_target_check'])
    if not m['caught_by_target_check']:
        missed.append(sid)
    rnd = 8 if sid.startswith('R8-') else 7 if sid.startswith('R7-') else 6 if sid.startswith('R6-') else 5 if sid.startswith('R5-') else 4 if sid.startswith('R4-') else 3 if sid.startswith('R3-') else 2 if sid.startswith('R2-') else 1
    rows[rnd].append("| `%s` | %s | %s | %s | %s |" % (sid, m['breaks_property'], m['needs_to_manifest'].replace('|', '/'),
                                                   'yes' if m['caught_by_target_check'] else '**no** (arithmetic overflow only)', ' '.join(m['checks_that_fire']) or '-'))
head = """# Independent breaking changes (sub-agents)

Eight rounds of sub-agents (round 1 and 2: one per property, two changes each; round 3: one per pair of properties, two changes per property; rounds 4 and 5: one
per area of the crate, four "refactorings with one subtle slip" each - round 5 written in exactly the styles the generalised models had just learnt to accept; rounds 6 and 7: one per pair of properties, asked for changes unlike the obvious ones; round 8: one per property for the eight properties with the fewest seeds so far, two changes each), each given only the property text and a private worktree, were asked for a change
that breaks the property while the crate compiles and the 99 + 11 existing tests still pass, with a
demonstration that fails with the change and passes without it. Every change below was re-confirmed by `tools/verify_seed.py` in a scratch worktree before being
kept (`meta.json: confirmed`). `patch.diff` applies to /repo at the commit of the last `fix:`; `demo.rs` is an integration test (copy to `tests/`). None of these
changes is ever committed to /repo. `_agent_notes/` keeps the agents' own notes (also those of the behaviour-preserving refactorings and feature additions, which
live in `selftest/neutral_*.diff`).

To run the checks against one: `tools/trypatch.py seeded/<id>/patch.diff Cxx ...` (applies to /repo, runs, always restores) or the thorough tier, which applies
them to scratch copies outside /repo. The last column is what the kill matrix (`python3 ndi/selftest.py matrix`, recorded in `selftest/expect.json`) shows today.

"""
tbl = "| id | breaks | needs, in order to manifest | reported by the target check | all checks that fire |\n|----|--------|-----------------------------|------------------------------|----------------------|\n"
body = ""
for rnd in (1, 2, 3, 4, 5, 6, 7, 8):
    body += "## Round %d (%d changes)\n\n" % (rnd, len(rows[rnd])) + tbl + "\n".join(rows[rnd]) + "\n\n"
tail = """%d of %d are reported by the check of the property they were written against (further fire-list entries are other properties the change also breaks, or
checks that cannot extract their kernel from the changed code and fail closed). The %d that are not reported (%s) replace a formula by an algebraically identical
one that overflows / loses accuracy in floating-point or integer arithmetic - outside what a decision over exact field arithmetic can see (DESIGN.md section 4).
""" % (c, n, len(missed), ', '.join('`%s`' % s for s in missed))
open(os.path.join(HERE, 'seeded', 'README.md'), 'w').write(head + body + tail)
# DESIGN.md tables
hand = ["| `%s` | %s | %s |" % (k, v['target'], ' '.join(v['fires']) or '-')
        for k, v in sorted(exp.items()) if not k.startswith('seeded/') and not k.startswith('neutral') and not k.startswith('unmodelled')]
t1 = "| seeded violation (selftest/*.diff) | target | checks that fire |\n|---|---|---|\n" + "\n".join(hand)
seed = ["| `%s` | %s | %s | %s |" % (k[7:], v['target'], 'yes' if v['target'] in v['fires'] else '**no**', ' '.join(v['fires']) or '-')
        for k, v in sorted(exp.items()) if k.startswith('seeded/')]
t2 = "| independent change (seeded/<id>) | written against | reported by that check | checks that fire |\n|---|---|---|---|\n" + "\n".join(seed)
neutral = sorted(k for k in exp if k.startswith('neutral'))
groups = [("hand-written refactorings", [k for k in neutral if not k.startswith(('neutral_agent', 'neutral_feature', 'neutral_rename'))]),
          ("sub-agent refactorings (all samples, three per agent, minus the ones listed below as not understood)", [k for k in neutral if k.startswith('neutral_agent')]),
          ("sub-agent additive changes (accessors, new strategy, code moves, doc/lint pass, tests)", [k for k in neutral if k.startswith('neutral_feature')]),
          ("sub-agent renames of private items and module reorganisations", [k for k in neutral if k.startswith('neutral_rename')])]
t3 = "| behaviour-preserving patches (selftest/neutral_*.diff) | count | checks that fire |\n|---|---|---|\n" + \
     "\n".join("| %s: %s | %d | none |" % (g, ' '.join('`%s`' % k[8:] for k in ks), len(ks)) for g, ks in groups if ks) + "\n" + \
     "\n".join("| **not understood** (deep restructuring, behaviour-preserving): `%s` | 1 | %s (false alarms) |" % (k, ' '.join(v['fires']))
               for k, v in sorted(exp.items()) if k.startswith('unmodelled'))
p = os.path.join(HERE, 'DESIGN.md')
s = open(p).read()
s = re.sub(r"### 5\.1 Kill matrix of the hand-seeded violations\n.*?### 5\.2", "### 5.1 Kill matrix of the hand-seeded violations\n\n" +
           "Each row was produced by `python3 ndi/selftest.py matrix` (all 20 checks against a scratch copy with the patch). `d*_prefix_*` are the five defects re-introduced.\n\n" +
           t1 + "\n\n" + t3 + "\n\n### 5.2", s, flags=re.S)
s = re.sub(r"### 5\.2 Independent breaking changes\n.*?\n---------------------------------------------------------------------------\n\n## Appendix A",
           "### 5.2 Independent breaking changes\n\n%d of %d are reported by the check they were written against; details in `seeded/README.md`.\n\n" % (c, n) + t2 +
           "\n\n---------------------------------------------------------------------------\n\n## Appendix A", s, flags=re.S)
open(p, 'w').write(s)
print(n, c, missed, len(neutral))
