#!/usr/bin/env python3
"""Regenerates seeded/README.md and the tables of DESIGN.md section 5 from selftest/expect.json and seeded/*/meta.json."""
import json, os, re
HERE = os.path.dirname(os.path.dirname(os.path.abspath(__file__)))
exp = json.load(open(os.path.join(HERE, 'selftest', 'expect.json')))
rows = []
n = c = 0
for sid in sorted(os.listdir(os.path.join(HERE, 'seeded'))):
    mp = os.path.join(HERE, 'seeded', sid, 'meta.json')
    if not os.path.exists(mp):
        continue
    m = json.load(open(mp))
    n += 1
    c += bool(m['caught_by_target_check'])
    rows.append("| `%s` | %s | %s | %s | %s |" % (sid, m['breaks_property'], m['needs_to_manifest'].replace('|', '/'),
                                              'yes' if m['caught_by_target_check'] else '**no** (floating-point only)', ' '.join(m['checks_that_fire'])))
head = """# Independent breaking changes (sub-agents)

One sub-agent per property, given only the property text and a private worktree, was asked for a change that breaks the property while the crate compiles
and the 99 + 11 existing tests still pass, with a demonstration that fails with the change and passes without it. Every change below was re-confirmed by
`tools/verify_seed.py` in a scratch worktree before being kept (`meta.json: confirmed`). `patch.diff` applies to /repo at the commit of the last `fix:`;
`demo.rs` is an integration test (copy to `tests/`). None of these changes is ever committed to /repo. `_agent_notes/` keeps the agents' own notes.

To run the checks against one: `tools/trypatch.py seeded/<id>/patch.diff Cxx ...` (applies to /repo, runs, always restores) or the thorough tier, which applies
them to scratch copies outside /repo.

| id | breaks | needs, in order to manifest | reported by the target check | all checks that fire |
|----|--------|-----------------------------|------------------------------|----------------------|
"""
tail = """

%d of %d are reported by the check of the property they were written against (further fire-list entries are other properties the change also breaks, or
checks that cannot extract their kernel from the changed code and fail closed). The ones that are not reported replace a formula by an algebraically identical
one that overflows / loses accuracy in floating point - outside what a decision over exact field arithmetic can see (DESIGN.md section 4).
""" % (c, n)
open(os.path.join(HERE, 'seeded', 'README.md'), 'w').write(head + "\n".join(rows) + tail)
# DESIGN.md tables
hand = ["| `%s` | %s | %s |" % (k, v['target'] or '(none: behaviour-preserving refactoring)', ' '.join(v['fires']) or '-')
        for k, v in sorted(exp.items()) if not k.startswith('seeded/')]
t1 = "| seeded violation (selftest/*.diff) | target | checks that fire |\n|---|---|---|\n" + "\n".join(hand)
seed = ["| `%s` | %s | %s | %s |" % (k[7:], v['target'], 'yes' if v['target'] in v['fires'] else '**no**', ' '.join(v['fires']) or '-')
        for k, v in sorted(exp.items()) if k.startswith('seeded/')]
t2 = "| independent change (seeded/<id>) | written against | reported by that check | checks that fire |\n|---|---|---|---|\n" + "\n".join(seed)
p = os.path.join(HERE, 'DESIGN.md')
s = open(p).read()
s = re.sub(r"### 5\.1 Kill matrix of the hand-seeded violations\n.*?### 5\.2", "### 5.1 Kill matrix of the hand-seeded violations\n\n" +
           "Each row was produced by `python3 ndi/selftest.py matrix` (all 20 checks against a scratch copy with the patch). `d*_prefix_*` are the five defects re-introduced; "
           "`neutral_*` are behaviour-preserving refactorings on which no check may fire.\n\n" + t1 + "\n\n### 5.2", s, flags=re.S)
s = re.sub(r"### 5\.2 Independent breaking changes\n.*?\n---------------------------------------------------------------------------\n\n## Appendix A",
           "### 5.2 Independent breaking changes\n\n%d of %d are reported by the check they were written against; details in `seeded/README.md`.\n\n" % (c, n) + t2 +
           "\n\n---------------------------------------------------------------------------\n\n## Appendix A", s, flags=re.S)
open(p, 'w').write(s)
print(n, c)
