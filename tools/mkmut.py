#!/usr/bin/env python3
"""tools/mkmut.py <name> <file-relative-to-/repo> <old> <new> [count]  -> /verif/selftest/<name>.diff (and restores /repo)"""
import subprocess, sys
name, file, old, new = sys.argv[1:5]
count = int(sys.argv[5]) if len(sys.argv) > 5 else 1
p = '/repo/' + file
s = open(p).read()
if s.count(old) < 1:
    print("pattern not found"); sys.exit(1)
open(p, 'w').write(s.replace(old, new, count))
d = subprocess.check_output(['git', 'diff'], cwd='/repo', text=True)
# append to an existing diff of the same name? no: overwrite
open('/verif/selftest/%s.diff' % name, 'w').write(d)
subprocess.run(['git', 'checkout', '--', '.'], cwd='/repo')
print("wrote selftest/%s.diff (%d lines)" % (name, d.count('\n')))
