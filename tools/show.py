#!/usr/bin/env python3
"""tools/show.py <generic-stripped def path> : compact dump of the typed tree of a body"""
import sys, os
sys.path.insert(0, os.path.dirname(os.path.dirname(os.path.abspath(__file__))))
from ndi import facts
from ndi.thir import *
lib = Lib(facts.lib_facts())
def show(e, ind=0):
    pad = '  ' * ind
    if isinstance(e, dict) and 'k' in e and 'sp' in e and 'ty' in e:
        k = e['k']; extra = ''
        if k == 'Call': extra = strip_generics(e['callee']['path']) if e.get('callee') and e['callee'].get('path') else str(e.get('callee'))
        elif k in ('Var', 'Upvar'): extra = e['var']
        elif k == 'Lit': extra = e['v'][:30]
        elif k == 'Field': extra = e['name']
        elif k in ('Binary', 'Logical', 'Unary', 'AssignOp'): extra = e['op']
        elif k == 'Adt': extra = e['adt'] + '::' + e['variant']
        elif k == 'Zst': extra = str(e['fn'])[:100]
        elif k == 'NamedConst': extra = e['def']
        elif k == 'Match': extra = e['src']
        elif k == 'Closure': extra = e['def'].split('::')[-1]
        print(pad + k, extra, ' :', e['ty'][:70], ('EXPN ' + str(e['expn'][-1])) if e.get('expn') else '', '@' + e['sp'].split(':')[1])
        for kk, v in e.items():
            if kk in ('ty', 'sp', 'expn', 'callee', 'k'): continue
            if isinstance(v, (dict, list)) and v:
                print(pad + ' .' + kk); show(v, ind + 1)
    elif isinstance(e, dict):
        simple = {a: b for a, b in e.items() if not isinstance(b, (dict, list)) and a not in ('ty', 'sp')}
        if simple: print(pad + str(simple))
        for kk, v in e.items():
            if isinstance(v, (dict, list)) and v:
                print(pad + ' .' + kk); show(v, ind + 1)
    elif isinstance(e, list):
        for x in e: show(x, ind)
name = sys.argv[1]
bs = lib.by_norm.get(name) or [b for d, b in lib.bodies.items() if name in d]
for b in bs:
    print('=====', b['def'])
    for p in b['params']: print('param', p['ty'], p.get('pat', {}) and p['pat'].get('var'))
    show(b['root'])
