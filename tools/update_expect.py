#!/usr/bin/env python3
"""tools/update_expect.py [--merge] <matrix.json> [<matrix.json> ...]
--merge: keep the entries of the existing expect.json that the given matrices do not mention (partial matrix of a new round).
Rebuilds selftest/expect.json (which checks fire on which seeded change) from kill-matrix runs (`python3 ndi/selftest.py matrix`).
Refuses to record a behaviour-preserving patch (neutral_*) on which a check fires, and a seeded violation its target check misses
unless it is listed in FLOAT_ONLY (algebraically identical over the reals: outside what this technique decides)."""
import json, os, re, sys
HERE = os.path.dirname(os.path.dirname(os.path.abspath(__file__)))
FLOAT_ONLY = {'seeded/C01-weighted-mean-overflow', 'seeded/C11-guess-multiply-first', 'seeded/R2-C01-weighted-mean-overflow',
              'seeded/R2-C11-guess-multiply-first', 'seeded/R3-C11-guess-multiply-first-overflow',
              'seeded/R5-C11-bracket-estimate-multiply-first', 'seeded/R7-C11-guess-multiplies-before-dividing'}
HAND_TARGET = {'d1_prefix_nak_right': 'C03', 'd2_prefix_into_shape': 'C13', 'd3_prefix_no_shape_assert': 'C14', 'd4_prefix_ctor_index': 'C10',
               'd5_prefix_fast_trailing': 'C14'}
p = os.path.join(HERE, 'selftest', 'expect.json')
old = json.load(open(p)) if os.path.exists(p) else {}
merge = '--merge' in sys.argv
out = dict(old) if merge else {}
bad = []
for mf in [a for a in sys.argv[1:] if a != '--merge']:
    for name, o in json.load(open(mf)).items():
        if o['status'] != 'ok':
            print('skipped', name, o['status'])
            continue
        fires = sorted(c for c, r in o['results'].items() if r['exit'] == 1)
        if name.startswith('unmodelled'):
            # behaviour-preserving restructurings the models do not understand yet: recorded as the false alarms they are (DESIGN.md 5)
            out[name] = {'fires': fires, 'target': None, 'false_alarm': True}
            continue
        if name.startswith('neutral'):
            if fires:
                bad.append('FALSE ALARM %s: %s' % (name, fires))
            out[name] = {'fires': [], 'target': None}
            continue
        m = re.match(r'seeded/(?:R\d-)?(C\d\d)', name)
        target = m.group(1) if m else (old.get(name, {}).get('target') or HAND_TARGET.get(name) or name[:3].upper())
        if target not in fires and name not in FLOAT_ONLY:
            bad.append('MISS %s: target %s, fires %s' % (name, target, fires))
        out[name] = {'fires': fires, 'target': target}
for b in bad:
    print(b)
if bad:
    sys.exit(1)
json.dump(out, open(p, 'w'), indent=1, sort_keys=True)
print('expect.json: %d entries (%d seeded violations, %d behaviour-preserving patches)' %
      (len(out), sum(1 for n in out if not n.startswith('neutral')), sum(1 for n in out if n.startswith('neutral'))))
