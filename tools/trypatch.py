#!/usr/bin/env python3
"""tools/trypatch.py <patch.diff | -R <commit>> <Cxx> [<Cxx> ...] [--tier T]
Applies a change to /repo's working tree, runs the named checks, and ALWAYS restores /repo afterwards."""
import subprocess, sys, os
HERE = os.path.dirname(os.path.dirname(os.path.abspath(__file__)))
args = sys.argv[1:]
tier = "quick"
if "--tier" in args:
    i = args.index("--tier"); tier = args[i + 1]; del args[i:i + 2]
if args[0] == "-R":
    commit = args[1]; ids = args[2:]
    diff = subprocess.check_output(["git", "-C", "/repo", "show", commit])
    apply_cmd = ["git", "-C", "/repo", "apply", "-R", "-"]
else:
    diff = open(args[0], "rb").read(); ids = args[1:]
    apply_cmd = ["git", "-C", "/repo", "apply", "-"]
st = subprocess.check_output(["git", "-C", "/repo", "status", "--porcelain"], text=True)
if st.strip():
    print("refusing: /repo is not clean:\n" + st); sys.exit(2)
rc = {}
try:
    r = subprocess.run(apply_cmd, input=diff)
    if r.returncode != 0:
        print("patch does not apply"); sys.exit(3)
    for pid in ids:
        r = subprocess.run([os.path.join(HERE, "check"), pid, "--tier", tier], capture_output=True, text=True,
                           env=dict(os.environ, NDI_EVID_DIR="/tmp/ndi-trypatch-evidence"))
        rc[pid] = r.returncode
        print(r.stdout.strip()[-1500:])
        if r.stderr.strip():
            print(r.stderr.strip()[-500:])
finally:
    subprocess.run(["git", "-C", "/repo", "checkout", "--", "."])
    subprocess.run(["git", "-C", "/repo", "clean", "-fdq"])
print("RESULT", rc)
