#!/usr/bin/env python3
"""tools/trypatch.py <patch.diff | -R <commit>> <Cxx> [<Cxx> ...] [--tier T] [--inplace]
Runs the named checks against /repo with a change applied.
Default: the change is applied to a scratch copy of /repo's tracked files at HEAD outside /repo and /verif (NDI_REPO), which is removed
afterwards - /repo itself is never touched, so several of these can run side by side.
--inplace: apply to /repo's working tree (git -C /repo apply), run, and ALWAYS restore /repo afterwards (git checkout -- . ; git clean -fd)."""
import subprocess, sys, os, shutil, tempfile, hashlib
HERE = os.path.dirname(os.path.dirname(os.path.abspath(__file__)))
args = sys.argv[1:]
tier = "quick"
inplace = "--inplace" in args
if inplace:
    args.remove("--inplace")
if "--tier" in args:
    i = args.index("--tier"); tier = args[i + 1]; del args[i:i + 2]
if args[0] == "-R":
    commit = args[1]; ids = args[2:]
    diff = subprocess.check_output(["git", "-C", "/repo", "show", commit])
    rev = ["-R"]
else:
    diff = open(args[0], "rb").read(); ids = args[1:]
    rev = []
rc = {}


def run_checks(env):
    for pid in ids:
        r = subprocess.run([os.path.join(HERE, "check"), pid, "--tier", tier], capture_output=True, text=True, env=env)
        rc[pid] = r.returncode
        print(r.stdout.strip()[-1500:])
        if r.stderr.strip():
            print(r.stderr.strip()[-500:])


if inplace:
    st = subprocess.check_output(["git", "-C", "/repo", "status", "--porcelain"], text=True)
    if st.strip():
        print("refusing: /repo is not clean:\n" + st); sys.exit(2)
    try:
        r = subprocess.run(["git", "-C", "/repo", "apply"] + rev + ["-"], input=diff)
        if r.returncode != 0:
            print("patch does not apply"); sys.exit(3)
        run_checks(dict(os.environ, NDI_EVID_DIR="/tmp/ndi-trypatch-evidence"))
    finally:
        subprocess.run(["git", "-C", "/repo", "checkout", "--", "."])
        subprocess.run(["git", "-C", "/repo", "clean", "-fdq"])
else:
    d = tempfile.mkdtemp(prefix="ndi-trypatch-")
    try:
        tar = subprocess.run(["git", "-C", "/repo", "archive", "HEAD"], capture_output=True, check=True).stdout
        subprocess.run(["tar", "-x", "-C", d], input=tar, check=True)
        r = subprocess.run(["patch", "-p1", "-s", "--no-backup-if-mismatch"] + rev, input=diff, cwd=d)
        if r.returncode != 0:
            print("patch does not apply"); sys.exit(3)
        slot = "-tp" + hashlib.md5(d.encode()).hexdigest()[:6]
        run_checks(dict(os.environ, NDI_REPO=d, NDI_EVID_DIR=os.path.join(d, "evidence"), NDI_TARGET_SUFFIX=slot))
    finally:
        shutil.rmtree(d, ignore_errors=True)
        for base in ("lib", "witness", "mono"):
            shutil.rmtree(os.path.join(HERE, ".target", base + "-tp" + hashlib.md5(d.encode()).hexdigest()[:6]), ignore_errors=True)
print("RESULT", rc)
