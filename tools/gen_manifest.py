#!/usr/bin/env python3
"""Regenerates MANIFEST.json from the table below (kept next to the checks so the two cannot drift)."""
import json, os, sys
HERE = os.path.dirname(os.path.dirname(os.path.abspath(__file__)))
sys.path.insert(0, HERE)
from tools.manifest_table import CHECKS, NOT_APPLICABLE

ids = [json.loads(l)['id'] for l in open(os.path.join(HERE, 'properties.jsonl'))]
checks = []
for pid in ids:
    if pid not in CHECKS:
        continue
    c = CHECKS[pid]
    checks.append({
        "property_id": pid,
        "quick_cmd": "./check %s --tier quick" % pid,
        "thorough_cmd": "./check %s --tier thorough" % pid,
        "evidence_file": "/verif/evidence/%s.json" % pid,
        "replay_cmd_template": "./check %s --explain {path}" % pid,
        "engine": c.get("engine", "ndi"),
        "level_claimed": {"category": c["level"], "text": c["text"], "design_ref": "DESIGN.md section 3, " + pid},
        "level_note": c["note"],
        "technique": c["technique"],
    })
na = [{"property_id": p, "reason": NOT_APPLICABLE[p]} for p in ids if p in NOT_APPLICABLE]
for p in ids:
    assert (p in CHECKS) != (p in NOT_APPLICABLE), p
m = {
    "version": 1,
    "setup_cmd": "cd /verif/driver && CARGO_NET_OFFLINE=true cargo +nightly build --release --offline",
    "hooks": {
        "guard": "ndarray_interp_verif",
        "enable": "no hooks are used: the checks analyse /repo's source through a rustc driver (RUSTC_WORKSPACE_WRAPPER) and instrument nothing",
        "baseline_off_cmd": "cd /repo && cargo test --workspace --no-fail-fast --offline",
        "source_commits": [],
        "add_only": True,
    },
    "engines": [
        {"name": "ndi-facts", "path": "/verif/driver", "serves_properties": sorted(CHECKS),
         "kind_free_text": "rustc_private driver: dumps items, typed expression trees (THIR), MIR with resolved callees, type-level queries of /repo's current tree as JSON; never runs the code"},
        {"name": "ndi", "path": "/verif/ndi", "serves_properties": sorted(CHECKS),
         "kind_free_text": "python rule engines over the facts: who-may-call tables, guard dominance, finite decision tables, kernel extraction + polynomial normal forms, units typing"},
    ],
    "checks": checks,
    "notes": "Static analysis only. The four genuine defects found are repaired in /repo by 'fix:' commits; see known_findings.json and DESIGN.md section 2.",
    "not_applicable": na,
}
json.dump(m, open(os.path.join(HERE, 'MANIFEST.json'), 'w'), indent=1)
print("checks:", len(checks), "not_applicable:", len(na))
