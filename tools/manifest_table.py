TB = "rustc nightly front end; ndarray 0.16 / num-traits / std API contracts; "
CHECKS = {
 "C19": {"level": "proof",
         "text": "Typing proof over a closed set: every call of the private unsafe cast is dominated by the TypeId equality guard, and for every admissible implementor of the sealed dimension traits rustc normalises source and destination type to the same type (obligations = discharged). Decides the 'identical types' clause for all storages/element types by parametricity.",
         "note": TB + "the dimension traits are sealed so the implementor list is closed",
         "technique": "guard-dominance over the typed tree + compiler-normalised type equality per trait implementor (rustc_private driver)"},
}
_PENDING = "check under construction (see DESIGN.md); not claimed yet"
NOT_APPLICABLE = {p: _PENDING for p in
  ["C01","C02","C03","C04","C05","C06","C07","C08","C09","C10","C11","C12","C13","C14","C15","C16","C17","C18","C20"]}
