TB = "rustc nightly front end; ndarray 0.16 / num-traits / std API contracts; "
CHECKS = {
 "C19": {"level": "proof",
         "text": "Typing proof over a closed set: every call of the private unsafe cast is dominated by the TypeId equality guard, and for every admissible implementor of the sealed dimension traits rustc normalises source and destination type to the same type (obligations = discharged). Decides the 'identical types' clause for all storages/element types by parametricity.",
         "note": TB + "the dimension traits are sealed so the implementor list is closed",
         "technique": "guard-dominance over the typed tree + compiler-normalised type equality per trait implementor (rustc_private driver)"},
 "C17": {"level": "proof",
         "text": "Typing proof of immutability: deep UnsafeCell-reachability walk over the compiler's own types for all 17 ADTs, no statics, &self receivers on all 20 query/strategy methods, unsafe confined to the identity cast, stateful-callee deny table over all resolved MIR callees, and 108 Send+Sync + 4 shared-reference compile-time witnesses. In safe Rust this implies history/schedule independence; nothing is executed.",
         "note": TB + "safe-Rust aliasing guarantees; interior mutability inside caller-chosen storage is out of scope by the property's wording",
         "technique": "interior-mutability type walk + receiver/unsafe/statics rules over rustc facts + compile-time Send/Sync witness crate"},
 "C13": {"level": "other",
         "text": "Decides the structural necessary condition: no resolved callee in the library is a layout-sensitive ndarray API (frozen table of 41 entries checked against all MIR and THIR call sites), unsafe is confined to the identity cast, entry points are storage-generic. Reported defect D2 (into_shape_with_order) before its fix. Bit-identity itself is not measured.",
         "note": TB + "ndarray's safe API outside the table is stride-aware (confirmed by reading ndarray 0.16.1)",
         "technique": "type-resolved who-may-call deny table over MIR+THIR callees; unsafe-block confinement; signature facts"},
}
_PENDING = "check under construction (see DESIGN.md); not claimed yet"
NOT_APPLICABLE = {p: _PENDING for p in
  ["C01","C02","C03","C04","C05","C06","C07","C08","C09","C10","C11","C12","C14","C15","C16","C18","C20"]}
