#!/usr/bin/env python3
"""tools/verify_seed.py <change.diff> <demo.rs> <seed-id> <property> [--needs "..."]
Confirms, in a scratch worktree of /repo (outside /repo and /verif), that the change compiles, the existing suite still passes with it,
the demonstration fails with it and passes without it; then runs all 20 checks against a scratch copy with the change and records the result
as /verif/seeded/<seed-id>/{patch.diff, demo.rs, meta.json}.  The scratch worktree is removed afterwards."""
import json, os, re, shutil, subprocess, sys
HERE = os.path.dirname(os.path.dirname(os.path.abspath(__file__)))
sys.path.insert(0, HERE)
change, demo, sid, prop = sys.argv[1:5]
needs = sys.argv[sys.argv.index('--needs') + 1] if '--needs' in sys.argv else ''
WT = '/tmp/vs/wt-' + sid
TGT = '/tmp/vs/target' + os.environ.get('VS_SLOT', '')
os.makedirs('/tmp/vs', exist_ok=True)
env = dict(os.environ, CARGO_TARGET_DIR=TGT, CARGO_NET_OFFLINE='true', RUST_BACKTRACE='0')
log = {}


def sh(cmd, **kw):
    return subprocess.run(cmd, shell=True, capture_output=True, text=True, env=env, **kw)


def results(r):
    """per test binary: (name, ok, passed, failed); names come from stderr ('Running ...'), results from stdout, both in order"""
    names = []
    for l in r.stderr.splitlines():
        m = re.search(r'Running (?:unittests )?(\S+)', l)
        if m:
            names.append(m.group(1))
        m = re.search(r'Doc-tests (\S+)', l)
        if m:
            names.append('doc:' + m.group(1))
    res = []
    for l in r.stdout.splitlines():
        m = re.match(r'test result: (\w+)\. (\d+) passed; (\d+) failed', l)
        if m:
            res.append((m.group(1) == 'ok', int(m.group(2)), int(m.group(3))))
    out = []
    for i, (ok, p, f) in enumerate(res):
        out.append((names[i] if i < len(names) else '?%d' % i, ok, p, f))
    return out

sh('git -C /repo worktree remove --force %s' % WT)
r = sh('git -C /repo worktree add --detach %s HEAD' % WT)
assert r.returncode == 0, r.stderr
try:
    r = sh('git apply %s' % os.path.abspath(change), cwd=WT)
    log['apply'] = r.returncode
    applies = r.returncode == 0
    # 1. existing suite with the change (demo not present)
    r1 = sh('cargo test --offline --no-fail-fast', cwd=WT)
    allr = results(r1)
    log['all_with_change'] = allr
    compiled = 'error: could not compile' not in r1.stderr and 'error[E' not in r1.stderr
    existing = allr
    existing_pass = compiled and r1.returncode == 0 and len(existing) >= 5 and all(ok for _, ok, _, _ in existing) and sum(p for _, _, p, _ in existing) >= 110
    # 2. demo with the change
    shutil.copyfile(demo, os.path.join(WT, 'tests', 'demo_seed.rs'))
    r2 = sh('cargo test --offline --test demo_seed', cwd=WT)
    demo_compiles = 'error: could not compile' not in r2.stderr and 'error[E' not in r2.stderr
    demo_fails_with = demo_compiles and r2.returncode != 0
    log['demo_with_change_tail'] = (r2.stdout + r2.stderr)[-400:]
    # 3. demo without the change
    sh('git checkout -- src', cwd=WT)
    r0 = sh('cargo test --offline --test demo_seed', cwd=WT)
    demo_passes_without = r0.returncode == 0 and any(ok for _, ok, _, _ in results(r0))
    verdict = applies and compiled and existing_pass and demo_fails_with and demo_passes_without
    print('applies', applies, 'compiled', compiled, 'existing_pass', existing_pass, sum(p for _, _, p, _ in existing), 'demo_fails_with', demo_fails_with,
          'demo_passes_without', demo_passes_without, '=> CONFIRMED' if verdict else '=> REJECTED')
    if not verdict:
        print((r1.stderr[-800:] + r2.stderr[-800:] + r0.stderr[-400:]))
        sys.exit(1)
finally:
    sh('git -C /repo worktree remove --force %s' % WT)
# ---- our checks against a scratch copy
from ndi import selftest
d = os.path.join(HERE, 'seeded', sid)
os.makedirs(d, exist_ok=True)
shutil.copyfile(change, os.path.join(d, 'patch.diff'))
shutil.copyfile(demo, os.path.join(d, 'demo.rs'))
os.environ['NDI_TARGET_SUFFIX_BASE'] = os.environ.get('VS_SLOT', '')
out = selftest.run(selected=['seeded/' + sid], props=selftest.ALL, workers=1, slot_base=os.environ.get('VS_SLOT', ''))
o = out['seeded/' + sid]
fires = sorted(p for p, rr in o['results'].items() if rr['exit'] == 1)
firsts = {p: o['results'][p]['first'] for p in fires}
meta = {"id": sid, "breaks_property": prop, "needs_to_manifest": needs,
        "confirmed": {"compiles": True, "existing_suite_passes_with_change": True, "tests_passed_with_change": sum(p for _, _, p, _ in existing),
                      "demo_fails_with_change": True, "demo_passes_without_change": True},
        "ran": ["git worktree add /tmp/vs/wt-%s HEAD" % sid, "cargo test --offline --test demo_seed  (without change: pass)", "git apply patch.diff",
                "cargo test --offline --no-fail-fast  (existing suite passes, demo fails)", "./check <all 20> on a scratch copy with the patch (NDI_REPO)"],
        "checks_that_fire": fires, "first_report": firsts, "caught_by_target_check": prop in fires}
json.dump(meta, open(os.path.join(d, 'meta.json'), 'w'), indent=1)
print('fires:', fires)
for p in fires[:4]:
    print('  ', p, firsts[p][:220])
