"""Model of the ndarray surface used by the spline *build* side (calc_coefficients, solve_for_k, thomas).

Lane-generic view (see kmodel): a row of an n-d array is ONE symbolic scalar (the value in an arbitrary lane).
Tracked arrays:
  arr1  - 1-D coefficient array (shared by all lanes): store idx -> Rat, plus an optional generic interior entry
  arr2  - array of rows along Axis(0): store idx -> Rat (lane value), optional generic entry, or symbolic rows `name[i]`
Index expressions are polynomials in the length symbol `n` (or the concrete 3) and loop variables.
Loops are never unrolled: a `for j in a..b` body is evaluated once with symbolic j and its writes are recorded as a
generic entry valid for a <= j < b.
"""
from .absint import *
from .kmodel import KModel, ax_atom, data_atom, idx_name, AX0_ENUM
from .poly import Rat, Poly, reindex


def is_axis0(v):
    v = deref_all(v)
    return isinstance(v, Enum) and v.adt == 'ndarray::Axis' and isinstance(v.fields.get('0'), Num) and v.fields['0'].const() == 0


class Tracked:
    """store of a tracked array"""
    def __init__(self, name, length, sym=None):
        self.name = name
        self.length = length          # Rat
        self.store = {}               # idx string -> (idx Rat, value Rat)
        self.generic = []             # list of dict(var, lo, hi, value)  (later entries override earlier ones)
        self.sym = sym                # if set: unknown contents, rows are atoms sym[i]
        self.offset = Rat.const(0)    # after slice_axis_inplace(lo..): logical index i refers to original i+offset (we only use lo = 0)
        self.writes = []              # log

    def write(self, idx, val, note=''):
        self.store[idx_name(idx)] = (idx, val)
        self.writes.append(('at', idx_name(idx), note))

    def write_generic(self, var, lo, hi, val, note=''):
        self.generic.append({'var': var, 'lo': lo, 'hi': hi, 'value': val})
        self.writes.append(('generic', var, idx_name(lo), idx_name(hi), note))

    def read(self, idx):
        k = idx_name(idx)
        if k in self.store:
            return self.store[k][1]
        if self.sym is not None:
            return Rat.atom("%s[%s]" % (self.sym, k))
        # a generic entry whose variable is the index itself (same symbolic position)
        for g in reversed(self.generic):
            if g['var'] == 'row' and isinstance(g['value'], Rat):
                return g['value']              # one row broadcast to every row
            if g['var'] == 'rowfn' and (idx == g['lo'] or idx == g['hi']):
                return g['value'].d['f'](idx)   # first / last row of a row-wise array expression
            if idx.is_poly() and g['var'] in idx.atoms():
                # idx = var + c : substitute var := idx - ... only exact match supported
                if str(idx) == g['var']:
                    return g['value']
        # constant index strictly inside a generic range cannot be decided symbolically: report zero-initialised only if no generic
        if not self.generic:
            return Rat.const(0)
        return None


class SModel(KModel):
    def __init__(self, scn):
        super().__init__(scn)
        self.assume_asserts = True      # no rule built on this model claims panic freedom of assertions
        self.summarises_range_loops = True
        self.n = Rat.const(scn['n']) if scn.get('n') is not None else Rat.atom('n')
        self.arrays = []
        self.thomas_calls = []
        self.solve_calls = []
        self.individual_calls = []
        self.loop_vars = 0
        self.cmp_events = []
        self.ret_err = None

    # ------------------------------------------------------------------ scenario comparisons
    def compare(self, op, a, b, e):
        if isinstance(a, Obj) and a.kind == 'lanes' and isinstance(b, Obj) and b.kind == 'lanes':
            eq = bool(self.scn.get('ends_equal', True))
            self.cmp_events.append(('lanes', str(a.d['r']), str(b.d['r']), op))
            return eq if op == 'eq' else (not eq)
        if isinstance(a, Obj) and a.kind == 'ddim' and isinstance(b, Obj) and b.kind == 'ddim':
            ok = bool(self.scn.get('bounds_ok', True))
            self.cmp_events.append(('ddim', repr(a.d), repr(b.d), op))
            return ok if op == 'eq' else (not ok)
        if isinstance(a, Num) and isinstance(b, Num):
            sa, sb = str(a.r), str(b.r)
            if 'n' in (sa, sb) and self.scn.get('n') is None:
                other = b if sa == 'n' else a
                c = other.const()
                if c is not None:
                    # n >= 4 in the general scenario
                    o = op if sa == 'n' else {'lt': 'gt', 'le': 'ge', 'gt': 'lt', 'ge': 'le', 'eq': 'eq', 'ne': 'ne'}[op]
                    if c <= 3:
                        return {'eq': False, 'ne': True, 'lt': False, 'le': False, 'gt': True, 'ge': True}[o]
            if sa == 'ndim' or sb == 'ndim':
                one = bool(self.scn.get('ndim1', False))
                self.cmp_events.append(('ndim', op))
                if op == 'eq':
                    return one
                if op == 'ne':
                    return not one
                if op == 'gt':
                    return (not one) if sa == 'ndim' else one
        return super().compare(op, a, b, e)

    # ------------------------------------------------------------------ helpers
    def new_arr1(self, length, name=None):
        t = Tracked(name or 'c%d' % len(self.arrays), length)
        self.arrays.append(t)
        return Obj('arr1', t=t, lo=Rat.const(0), hi=length)

    def new_arr2(self, length, name=None, sym=None):
        t = Tracked(name or 'r%d' % len(self.arrays), length, sym)
        self.arrays.append(t)
        return Obj('arr2', t=t, lo=Rat.const(0), hi=length)

    def lanes(self, r):
        return Obj('lanes', r=r)

    def slice_bounds(self, sl, length, e):
        """ndarray Slice / SliceInfoElem with i32/isize bounds (negative = from the end) -> (lo, hi) as Rat"""
        start, end = sl.d.get('start'), sl.d.get('end')
        def conv(v, default):
            if v is None:
                return default
            c = v.const() if isinstance(v, Num) else None
            if c is None:
                raise Unsupported("non-literal slice bound", e)
            return Rat.const(c) if c >= 0 else length + Rat.const(c)
        return conv(start, Rat.const(0)), conv(end, length)

    # ------------------------------------------------------------------ calls
    def call(self, name, cal, args, e, frame):
        last = name.split('::')[-1]
        a0 = deref_all(args[0]) if args else None
        nd = (cal.get('crate') == 'ndarray') or ('ndarray::' in (cal.get('resolved') or ''))
        # ---- crate-local calls we summarise
        lib = self.interp.lib
        if lib.is_role(name, 'CubicSpline::thomas') and self.scn.get('summarise_thomas', True):
            vals = [deref_all(a) for a in args]
            from .roles import solver_param_roles
            tb = lib.body('CubicSpline::thomas')
            ps = [p_.get('ty', '') if isinstance(p_, dict) else str(p_) for p_ in (tb or {}).get('params', [])]
            proles = solver_param_roles(lib, ps) if tb else None
            if proles is None or len(proles) != len(vals):
                proles = ['k'] + ['coef'] * (len(vals) - 2) + ['rhs']
            k = rhs = None
            coeffs = []
            for v, pr in zip(vals, proles):
                if pr == 'k':
                    k = v
                elif pr == 'rhs':
                    rhs = v
                elif isinstance(v, Obj) and v.kind == 'arr1':
                    coeffs.append(v)
                elif isinstance(v, Enum):
                    coeffs += [deref_all(x) for x in self._struct_fields_in_order(v) if isinstance(deref_all(x), Obj) and deref_all(x).kind == 'arr1']
            labels = getattr(lib, 'thomas_labels', None) or ['up', 'mid', 'low']
            if len(coeffs) != 3:
                raise Unsupported("the tridiagonal solver is called with %d coefficient arrays" % len(coeffs), e)
            rec = dict(zip(labels, coeffs))
            rec.update({'k': k, 'rhs': rhs, 'where': line_of(e)})
            self.thomas_calls.append(rec)
            if isinstance(k, Obj) and k.kind == 'arr2':
                k.d['t'].sym = 'K%d' % len(self.thomas_calls)
                k.d['t'].store.clear()
                k.d['t'].generic = []
            return Unit()
        if lib.is_role(name, 'CubicSpline::solve_for_k') and self.scn.get('summarise_solve', False):
            from .props.spline import canon_entry_call
            cargs = canon_entry_call(lib, 'CubicSpline::solve_for_k', args)
            self.solve_calls.append({'args': cargs, 'where': line_of(e)})
            k = cargs[0]
            if isinstance(k, Obj) and k.kind == 'arr2':
                k.d['t'].sym = 'k'
            return OK(Unit()) if self.scn.get('solve', 'ok') == 'ok' else self._err()
        if lib.is_role(name, 'CubicSpline::solve_for_k_individual') and self.scn.get('summarise_solve', False):
            from .props.spline import canon_entry_call
            cargs = canon_entry_call(lib, 'CubicSpline::solve_for_k_individual', args)
            self.individual_calls.append({'args': cargs, 'where': line_of(e)})
            k = cargs[0]
            if isinstance(k, Obj) and k.kind == 'arr2':
                k.d['t'].sym = 'k'
            return OK(Unit()) if self.scn.get('solve', 'ok') == 'ok' else self._err()
        # ---- slices / s! macro
        if name.endswith('>::from') or name == 'std::convert::From::from':
            v = deref_all(args[0])
            if isinstance(v, Enum) and v.adt == 'std::ops::Range':
                return Obj('slice', start=deref_all(v.fields['start']), end=deref_all(v.fields['end']))
            if isinstance(v, Enum) and v.adt == 'std::ops::RangeFull':
                return Obj('slice', start=None, end=None)
            return NotImplemented
        if last in ('next_in_dim', 'next_out_dim') and 'SliceNextDim' in name:
            return Unit()
        if name.endswith('SliceInfo::new_unchecked'):
            elems = deref_all(args[0])
            return Obj('sliceinfo', elems=[deref_all(x) for x in elems.items])
        if name == 'builtin::index':
            base, idx = deref_all(args[0]), deref_all(args[1])
            if isinstance(base, Obj) and base.kind == 'ddim':
                return self.ddim_place(base, idx, e)
            return NotImplemented
        if last in ('index', 'index_mut') and isinstance(a0, Obj) and a0.kind in ('ddim', 'arr1', 'window'):
            idx = deref_all(args[1])
            if a0.kind == 'ddim':
                return Ref(self.ddim_place(a0, idx, e))
            if a0.kind == 'arr1':
                return Ref(self.arr1_place(a0, idx, e), mut=True)
            if a0.kind == 'window':
                c = idx.const()
                i = a0.d['i']
                return Ref(ValPlace(Num(ax_atom(a0.d['axis'], i + int(c)))))
        if name == 'std::iter::IntoIterator::into_iter' or name.endswith('as std::iter::IntoIterator>::into_iter'):
            return a0
        if name == 'std::iter::Iterator::rev' and isinstance(a0, Enum) and a0.adt == 'std::ops::Range':
            return Obj('revrange', range=a0)
        def as_rowiter(v):
            v = deref_all(v)
            if isinstance(v, Obj) and v.kind == 'rowiter':
                return v
            if isinstance(v, Obj) and v.kind == 'windows':
                return Obj('rowiter', tree=('win', v.d['axis'], v.d['size']))
            if isinstance(v, Obj) and v.kind == 'arr1':
                return Obj('rowiter', tree=('elems', v))       # `&array1` / `array1.iter()` as an IntoIterator operand of zip
            return None
        def as_range_leaf(v):
            v = deref_all(v)
            if isinstance(v, Enum) and v.adt == 'std::ops::Range' and isinstance(deref_all(v.fields['start']), Num) and isinstance(deref_all(v.fields['end']), Num):
                return Obj('rowiter', tree=('range', deref_all(v.fields['start']).r, deref_all(v.fields['end']).r))
            return None
        if name == 'std::iter::Iterator::zip' and (as_rowiter(a0) is not None or as_rowiter(args[1]) is not None):
            # an index range zipped with row iterators counts the positions
            a_ = as_rowiter(a0) or as_range_leaf(a0)
            b = as_rowiter(args[1]) or as_range_leaf(args[1])
            if a_ is not None and b is not None:
                ta, tb = a_.d['tree'], b.d['tree']
                # operands reversed one by one (each possibly shortened by the same skip): for operands of equal length this is the
                # reversal of their zip
                ka = kb = 0
                ia, ib = ta, tb
                if ia[0] == 'skip' and ia[1][0] == 'rev':
                    ka, ia = ia[2], ia[1]
                if ib[0] == 'skip' and ib[1][0] == 'rev':
                    kb, ib = ib[2], ib[1]
                if ia[0] == 'rev' and ib[0] == 'rev' and ka == kb:
                    la, lb = self._tree_len(ia[1], e), self._tree_len(ib[1], e)
                    if (la - lb).is_zero():
                        z = ('rev', ('zip', ia[1], ib[1]))
                        return Obj('rowiter', tree=('skip', z, ka) if ka else z)
                return Obj('rowiter', tree=('zip', ta, tb))
        if name == 'std::iter::Iterator::enumerate' and as_rowiter(a0) is not None:
            return Obj('rowiter', tree=('enum', as_rowiter(a0).d['tree']))
        if name in ('std::iter::Iterator::rev', 'std::iter::DoubleEndedIterator::rev') and isinstance(a0, Obj) and a0.kind == 'rowiter':
            return Obj('rowiter', tree=('rev', a0.d['tree']))
        if name == 'std::iter::Iterator::skip' and as_rowiter(a0) is not None:
            k = deref_all(args[1])
            if isinstance(k, Num) and k.const() is not None and k.const() >= 0:
                return Obj('rowiter', tree=('skip', as_rowiter(a0).d['tree'], int(k.const())))
            raise Unsupported("skip by a non-literal count", e)
        if name == 'std::iter::Iterator::take' and as_rowiter(a0) is not None:
            k = deref_all(args[1])
            if isinstance(k, Num):
                return Obj('rowiter', tree=('take', as_rowiter(a0).d['tree'], k.r))
            raise Unsupported("take by an unknown count", e)
        if name in ('std::iter::Iterator::for_each',) and as_rowiter(a0) is not None:
            clo = args[1]
            return self.loop_call(frame, lambda: self.iterate_rows(as_rowiter(a0).d['tree'], lambda elem: self.interp.apply(clo, [elem], e), e))
        rng, rrev = (a0, False) if isinstance(a0, Enum) and a0.adt == 'std::ops::Range' else \
            ((a0.d['range'], True) if isinstance(a0, Obj) and a0.kind == 'revrange' else (None, False))
        if rng is not None and name == 'std::iter::Iterator::for_each':
            clo = args[1]
            return self.loop_call(frame, lambda: self.iterate_range(rng, rrev, lambda jn: self.interp.apply(clo, [jn], e), e))
        if rng is not None and name == 'std::iter::Iterator::fold':
            clo = args[2]
            fr = Frame()
            fr.bind('acc#fold', args[1])

            def step(jn):
                fr.assign('acc#fold', self.interp.apply(clo, [fr.lookup('acc#fold'), jn], e))
            self.loop_call(fr, lambda: self.iterate_range(rng, rrev, step, e))
            return fr.lookup('acc#fold')
        if name == 'std::iter::Iterator::fold' and as_rowiter(a0) is not None:
            clo = args[2]
            fr = Frame()
            fr.bind('acc#fold', args[1])

            def step2(elem):
                fr.assign('acc#fold', self.interp.apply(clo, [fr.lookup('acc#fold'), elem], e))
            self.loop_call(fr, lambda: self.iterate_rows(as_rowiter(a0).d['tree'], step2, e))
            return fr.lookup('acc#fold')
        if name == 'std::clone::Clone::clone' and isinstance(a0, Obj):
            if a0.kind == 'ddim':
                return Obj('ddim', n=a0.d['n'])
            if a0.kind in ('arr1', 'arr2'):
                nd = True
                last = 'clone'
            elif a0.kind in ('lanes',):
                return a0
        if not nd:
            return super().call(name, cal, args, e, frame)
        # ---- arithmetic on rows / whole arrays (ndarray's elementwise operator impls)
        if 'impl_ops::arithmetic_ops' in name or name in ('std::ops::Add::add', 'std::ops::Sub::sub', 'std::ops::Mul::mul', 'std::ops::Div::div'):
            op = {'add': '+', 'sub': '-', 'mul': '*', 'div': '/'}.get(last)
            if op:
                return self.elementwise(op, deref_all(args[0]), deref_all(args[1]), e)
        if last == 'from' and name.startswith('ndarray::Zip'):
            return Obj('zip', parts=[a0])
        if last == 'indexed' and name.startswith('ndarray::Zip'):
            return Obj('zip', parts=[a0], indexed=True)
        if last == 'and' and isinstance(a0, Obj) and a0.kind == 'zip':
            return Obj('zip', parts=a0.d['parts'] + [deref_all(args[1])], indexed=a0.d.get('indexed', False))
        if isinstance(a0, Obj) and a0.kind == 'ddim':
            if last in ('clone',):
                return Obj('ddim', n=a0.d['n'])
            if last == 'ndim':
                return Num(Rat.atom('ndim'))
        if last == 'zeros':
            if isinstance(a0, Num):
                return self.new_arr1(a0.r)
            if isinstance(a0, Obj) and a0.kind == 'ddim':
                return self.new_arr2(a0.d['n'])
        if isinstance(a0, Obj):
            k = a0.kind
            if k == 'data':
                if last in ('first', 'last'):
                    # some element of the (non-empty) data: only ever shown in an error message
                    return SOME(Ref(ValPlace(Opaque('%s element of the data' % last))))
                if last in ('axis_iter', 'outer_iter') and not a0.d['idx']:
                    if last == 'axis_iter' and not is_axis0(args[1]):
                        raise Unsupported("axis_iter over an axis other than Axis(0) of the data", e)
                    return Obj('rowiter', tree=('datarows', a0))
                if last == 'raw_dim':
                    return Obj('ddim', n=self.n)
                if last == 'ndim':
                    return Num(Rat.atom('ndim'))
                if last in ('view', 'into_dyn'):
                    return a0
            if k == 'axis' and last == 'windows':
                w = deref_all(args[1]).const()
                return Obj('windows', axis=a0.d['name'], size=int(w))
            if k == 'arr1':
                return self.arr1_call(last, a0, args, e)
            if k == 'arr2':
                return self.arr2_call(last, a0, args, e)
            if k == 'rowmut':
                return self.rowmut_call(last, a0, args, e)
            if k == 'lanes' and last in ('to_owned', 'into_owned', 'view', 'clone', 'view_mut'):
                return a0
        return super().call(name, cal, args, e, frame)

    def _struct_fields_in_order(self, v):
        """field values of a struct value in declaration order"""
        for a in self.interp.lib.f.get('adts', []):
            if a['path'] == v.adt and a.get('variants'):
                return [v.fields[f_['name']] for f_ in a['variants'][0]['fields'] if f_['name'] in v.fields]
        return [v.fields[k_] for k_ in sorted(v.fields)]

    def _err(self):
        self.ret_err = Enum('BuilderError', 'ValueError', {'0': Obj('solver-error')})
        return ERR(self.ret_err)

    def ddim_place(self, d, idx, e):
        c = idx.const() if isinstance(idx, Num) else None
        if c != 0:
            raise Unsupported("index %r into a data dimension (only [0] is reviewed)" % (idx,), e)

        def setter(v):
            d.d['n'] = deref_all(v).r
        return FnPlace(lambda: Num(d.d['n']), setter, 'dim[0]')

    # ------------------------------------------------------------------ arr1
    def arr1_place(self, a, idx, e):
        t = a.d['t']
        if not isinstance(idx, Num):
            raise Unsupported("1-D coefficient array indexed with %r" % (idx,), e)
        i = idx.r + a.d['lo']

        def getter():
            v = t.read(i)
            if v is None:
                raise Unsupported("read of %s[%s]: not known which write reaches it" % (t.name, idx_name(i)), e)
            return Num(v)

        def setter(v):
            t.write(i, deref_all(v).r, line_of(e))
        return FnPlace(getter, setter, "%s[%s]" % (t.name, idx_name(i)))

    def arr1_call(self, last, a, args, e):
        t = a.d['t']
        if last in ('slice_axis_mut', 'slice_axis'):
            if not is_axis0(args[1]):
                raise Unsupported("slice_axis on another axis of a 1-D array", e)
            lo, hi = self.slice_bounds(deref_all(args[2]), a.d['hi'] - a.d['lo'], e)
            return Obj('arr1', t=t, lo=a.d['lo'] + lo, hi=a.d['lo'] + hi)
        if last in ('slice_mut', 'slice'):
            si = deref_all(args[1])
            if not (isinstance(si, Obj) and si.kind == 'sliceinfo' and len(si.d['elems']) == 1):
                raise Unsupported("slice of a 1-D array with %r" % (si,), e)
            lo, hi = self.slice_bounds(si.d['elems'][0], a.d['hi'] - a.d['lo'], e)
            return Obj('arr1', t=t, lo=a.d['lo'] + lo, hi=a.d['lo'] + hi)
        if last == 'slice_axis_inplace':
            if not is_axis0(args[1]):
                raise Unsupported("slice_axis_inplace on another axis", e)
            lo, hi = self.slice_bounds(deref_all(args[2]), a.d['hi'] - a.d['lo'], e)
            a.d['lo'], a.d['hi'] = a.d['lo'] + lo, a.d['lo'] + hi
            return Unit()
        if last == 'clone':
            t2 = Tracked(t.name + "'", t.length)
            t2.store = dict(t.store)
            t2.generic = list(t.generic)
            self.arrays.append(t2)
            return Obj('arr1', t=t2, lo=a.d['lo'], hi=a.d['hi'])
        if last == 'len':
            return Num(a.d['hi'] - a.d['lo'])
        if last in ('iter', 'iter_mut'):
            return Obj('rowiter', tree=('elems', a))
        raise Unsupported("ndarray call `%s` on a 1-D coefficient array is not part of the reviewed solver surface" % last, e)

    # ------------------------------------------------------------------ arr2
    def arr2_row(self, a, i):
        t = a.d['t']
        v = t.read(i + a.d['lo'])
        return v

    def arr2_call(self, last, a, args, e):
        t = a.d['t']
        if last == 'index_axis_move' and e is not None and e.get('args') and 'ViewRepr<&mut' in (e['args'][0].get('ty') or '').replace("&'a mut", '&mut'):
            # consuming a mutable view gives the mutable row
            if not is_axis0(args[1]):
                raise Unsupported("index_axis_move on an axis other than Axis(0) of a lane array", e)
            return Obj('rowmut', a=a, i=deref_all(args[2]).r + a.d['lo'])
        if last in ('index_axis', 'index_axis_move'):
            if not is_axis0(args[1]):
                raise Unsupported("index_axis on an axis other than Axis(0) of a lane array", e)
            i = deref_all(args[2]).r
            v = self.arr2_row(a, i)
            if v is None:
                raise Unsupported("read of row %s of %s: not known which write reaches it" % (idx_name(i), t.name), e)
            return self.lanes(v)
        if last in ('axis_iter', 'axis_iter_mut', 'outer_iter', 'outer_iter_mut'):
            if last.startswith('axis_iter') and not is_axis0(args[1]):
                raise Unsupported("axis_iter over an axis other than Axis(0) of a lane array", e)
            return Obj('rowiter', tree=('rows', a, last.endswith('_mut')))
        if last == 'index_axis_mut':
            if not is_axis0(args[1]):
                raise Unsupported("index_axis_mut on an axis other than Axis(0) of a lane array", e)
            return Obj('rowmut', a=a, i=deref_all(args[2]).r + a.d['lo'])
        if last in ('view_mut', 'view', 'into_dyn'):
            return a
        if last == 'len_of':
            if not is_axis0(args[1]):
                raise Unsupported("len_of an axis other than Axis(0) of a lane array", e)
            return Num(a.d['hi'] - a.d['lo'])
        if last in ('raw_dim', 'dim'):
            return Obj('ddim', n=a.d['hi'] - a.d['lo'])
        if last == 'shape':
            return Ref(ValPlace(Obj('ddim', n=a.d['hi'] - a.d['lo'])))
        if last == 'ndim':
            return Num(Rat.atom('ndim'))
        if last == 'slice_axis_inplace':
            if not is_axis0(args[1]):
                raise Unsupported("slice_axis_inplace on another axis", e)
            lo, hi = self.slice_bounds(deref_all(args[2]), a.d['hi'] - a.d['lo'], e)
            a.d['lo'], a.d['hi'] = a.d['lo'] + lo, a.d['lo'] + hi
            return Unit()
        if last in ('slice_axis', 'slice_axis_mut'):
            if not is_axis0(args[1]):
                raise Unsupported("slice_axis on another axis", e)
            lo, hi = self.slice_bounds(deref_all(args[2]), a.d['hi'] - a.d['lo'], e)
            return Obj('arr2', t=t, lo=a.d['lo'] + lo, hi=a.d['lo'] + hi)
        if last == 'split_at':
            if not is_axis0(args[1]):
                raise Unsupported("split_at on an axis other than Axis(0) of a lane array", e)
            at = deref_all(args[2])
            if not isinstance(at, Num):
                raise Unsupported("split_at at %r" % (at,), e)
            return Tup([Obj('arr2', t=t, lo=a.d['lo'], hi=a.d['lo'] + at.r), Obj('arr2', t=t, lo=a.d['lo'] + at.r, hi=a.d['hi'])])
        if last in ('to_owned', 'into_owned', 'clone'):
            t2 = Tracked(t.name + "'", t.length, t.sym)
            t2.store = dict(t.store)
            t2.generic = list(t.generic)
            self.arrays.append(t2)
            return Obj('arr2', t=t2, lo=a.d['lo'], hi=a.d['hi'])
        if last == 'assign':
            src = deref_all(args[1])
            if isinstance(src, Obj) and src.kind == 'lanes':
                # every row gets the same lane-wise value (broadcast of one row)
                t.store.clear()
                t.generic = []
                t.sym = None
                t.write_generic('row', a.d['lo'], a.d['hi'] - 1, src.d['r'], 'assign-broadcast ' + line_of(e))
                return Unit()
            if isinstance(src, Obj) and src.kind == 'rowfn':
                t.sym = None
                t.write_generic('rowfn', a.d['lo'], a.d['hi'] - 1, src, 'assign-rowfn ' + line_of(e))
                return Unit()
            raise Unsupported("assign of %r to a lane array" % (src,), e)
        raise Unsupported("ndarray call `%s` on a lane array is not part of the reviewed (lane-wise) solver surface" % last, e)

    def rowmut_call(self, last, r, args, e):
        a = r.d['a']
        t = a.d['t']
        if last == 'assign':
            src = deref_all(args[1])
            if isinstance(src, Obj) and src.kind == 'lanes':
                t.write(r.d['i'], src.d['r'], line_of(e))
                return Unit()
            raise Unsupported("assign of %r to a row" % (src,), e)
        if last == 'fill':
            v = deref_all(args[1])
            if isinstance(v, Num):
                t.write(r.d['i'], v.r, 'fill ' + line_of(e))
                return Unit()
            raise Unsupported("fill with %r" % (v,), e)
        if last in ('view_mut',):
            return r
        raise Unsupported("ndarray call `%s` on a mutable row is not part of the reviewed solver surface" % last, e)

    # ------------------------------------------------------------------ elementwise arithmetic on rows
    def elementwise(self, op, a, b, e):
        def val(x):
            if isinstance(x, Num):
                return ('s', x.r)
            if isinstance(x, Obj) and x.kind == 'lanes':
                return ('l', x.d['r'])
            if isinstance(x, Obj) and x.kind in ('arr2', 'rowfn'):
                return ('a', x)
            raise Unsupported("operand %r of an elementwise array operation" % (x,), e)
        ka, va = val(a)
        kb, vb = val(b)
        f = {'+': lambda p, q: p + q, '-': lambda p, q: p - q, '*': lambda p, q: p * q, '/': lambda p, q: p / q}[op]
        if ka in 'sl' and kb in 'sl':
            r = f(va, vb)
            return self.lanes(r) if 'l' in (ka, kb) else Num(r)
        # whole-array expression: row function
        def rowf(i, ka=ka, va=va, kb=kb, vb=vb):
            def at(k, v):
                if k in 'sl':
                    return v
                if v.kind == 'rowfn':
                    return v.d['f'](i)
                rv = self.arr2_row(v, i)
                if rv is None:
                    raise Unsupported("row %s of %s unknown" % (idx_name(i), v.d['t'].name), e)
                return rv
            return f(at(ka, va), at(kb, vb))
        return Obj('rowfn', f=rowf)

    # ------------------------------------------------------------------ zip
    def lane_arg(self, part, e):
        if isinstance(part, Obj) and part.kind == 'rowmut':
            a, i = part.d['a'], part.d['i']
            t = a.d['t']

            def setter(v):
                t.write(i, deref_all(v).r, line_of(e))

            def getter():
                v = t.read(i)
                if v is None:
                    raise Unsupported("read of row %s of %s" % (idx_name(i), t.name), e)
                return Num(v)
            return Ref(FnPlace(getter, setter, "%s[%s]" % (t.name, idx_name(i))), mut=True)
        if isinstance(part, Obj) and part.kind == 'generic_elem':
            return part.d['ref']
        return super().lane_arg(part, e)

    def zip_for_each(self, z, clo, e):
        parts = z.d['parts']
        # interior fill: 1-D slices zipped with windows(k) of an axis -> one generic position i
        if any(isinstance(p, Obj) and p.kind == 'windows' for p in parts):
            return self.zip_windows(parts, clo, e, indexed=z.d.get('indexed', False))
        if z.d.get('indexed'):
            raise Unsupported("Zip::indexed over operands other than (slices / rows, windows of the axis)", e)
        return super().zip_for_each(z, clo, e)

    def zip_windows(self, parts, clo, e, indexed=False):
        self.loop_vars += 1
        var = 'i%d' % self.loop_vars if self.loop_vars > 1 else 'i'
        i = Rat.atom(var)
        args = []
        lo = hi = None
        pending = []
        for p in parts:
            if p.kind == 'arr1':
                # element j of the slice is original index lo + j ; we position the generic index i at original index
                if lo is None:
                    lo, hi = p.d['lo'], p.d['hi'] - 1
                elif not (p.d['lo'] == lo and p.d['hi'] - 1 == hi):
                    raise Unsupported("zipped slices cover different index ranges", e)
                t = p.d['t']
                cell = {'v': None}

                def setter(v, t=t, cell=cell):
                    cell['v'] = deref_all(v).r

                def getter(t=t, cell=cell):
                    return Num(cell['v'] if cell['v'] is not None else Rat.const(0))
                args.append(Ref(FnPlace(getter, setter, t.name + '[' + var + ']'), mut=True))
                pending.append((t, cell))
            elif p.kind == 'rowiter' and p.d['tree'][0] == 'rows':
                # the rows lo..hi of a lane array, one per window: row j of the iterator is array row lo + j = i
                a_, mut_ = p.d['tree'][1], p.d['tree'][2]
                if lo is None:
                    lo, hi = a_.d['lo'], a_.d['hi'] - 1
                elif not (a_.d['lo'] == lo and a_.d['hi'] - 1 == hi):
                    raise Unsupported("zipped slices cover different index ranges", e)
                if mut_:
                    args.append(Obj('rowmut', a=a_, i=i))
                else:
                    rv = a_.d['t'].read(i)
                    if rv is None:
                        raise Unsupported("read of row %s of %s: not known which write reaches it" % (var, a_.d['t'].name), e)
                    args.append(self.lanes(rv))
            elif p.kind == 'windows':
                args.append(('window', p))
            else:
                raise Unsupported("operand %r zipped with windows" % (p,), e)
        final = []
        for a in args:
            if isinstance(a, tuple):
                w = a[1]
                # window j starts at axis index j; slice element j is array index lo + j = i  =>  window covers axis[i - lo ...]
                final.append(Obj('window', axis=w.d['axis'], i=i - lo, size=w.d['size']))
            else:
                final.append(a)
        wsize = [p.d['size'] for p in parts if p.kind == 'windows'][0]
        self.window_alignment = {'slice_lo': lo, 'slice_hi': hi, 'var': var, 'window': wsize,
                                 'n_slice': hi - lo + 1, 'n_windows': self.len_of_axis() - wsize + 1}
        if indexed:
            final = [Num(i - lo)] + final           # Zip::indexed: the position within the zipped producers
        snapshot = [(t, dict(t.store)) for t in self.arrays]
        self.interp.apply(clo, final, e)
        for t, cell in pending:
            if cell['v'] is not None:
                t.write_generic(var, lo, hi, cell['v'], 'zip-windows ' + line_of(e))
        # rows written at the generic position
        for t, before in snapshot:
            for k, (idx, val) in list(t.store.items()):
                if (k not in before or before[k][1] is not val) and var in idx.atoms():
                    del t.store[k]
                    if k in before:
                        t.store[k] = before[k]
                    if str(idx) != var:
                        raise Unsupported("row %s written from window position %s" % (idx_name(idx), var), e)
                    t.write_generic(var, lo, hi, val, 'zip-windows rows ' + line_of(e))
                    t.generic[-1]['idx'] = idx
        return Unit()

    def len_of_axis(self):
        return self.n

    # ------------------------------------------------------------------ loops: one inductive step
    def _rowiter_elem(self, tree, j, lens, e, off=0):
        """element number j of the iterator described by `tree`; the lengths of its leaves (after skips) are collected in `lens`"""
        kind = tree[0]
        if kind == 'rows':
            a, mut = tree[1], tree[2]
            lens.append(a.d['hi'] - a.d['lo'] - off)
            if mut:
                return Obj('rowmut', a=a, i=j + off + a.d['lo'])
            v = self.arr2_row(a, j + off)
            if v is None:
                raise Unsupported("read of row %s of %s: not known which write reaches it" % (idx_name(j + off), a.d['t'].name), e)
            return self.lanes(v)
        if kind == 'datarows':
            lens.append(self.n - off)
            d = tree[1]
            at = data_atom(d.d['name'], [j + off])
            self.reads.append(str(at))
            return Obj('lanes', r=at)
        if kind == 'win':
            lens.append(self.len_of_axis() - tree[2] + 1 - off)
            return Obj('window', axis=tree[1], i=j + off, size=tree[2])
        if kind == 'skip':
            return self._rowiter_elem(tree[1], j, lens, e, off + tree[2])
        if kind == 'range':
            lens.append(tree[2] - tree[1] - off)
            return Num(tree[1] + j + off)
        if kind == 'take':
            lens.append(tree[2] - off)          # the first `count` positions of the inner iterator (skips outside it already counted)
            return self._rowiter_elem(tree[1], j, lens, e, off)
        if kind == 'zip':
            return Tup([self._rowiter_elem(tree[1], j, lens, e, off), self._rowiter_elem(tree[2], j, lens, e, off)])
        if kind == 'enum':
            return Tup([Num(j + off), self._rowiter_elem(tree[1], j, lens, e, off)])
        if kind == 'elems':
            a = tree[1]
            lens.append(a.d['hi'] - a.d['lo'] - off)
            return Ref(self.arr1_place(a, Num(j + off), e))
        raise Unsupported("iterator adaptor %r" % (kind,), e)

    def _tree_len(self, tree, e, off=0):
        """number of elements the iterator described by `tree` yields (no element is produced)"""
        kind = tree[0]
        if kind in ('rows', 'elems'):
            return tree[1].d['hi'] - tree[1].d['lo'] - off
        if kind == 'datarows':
            return self.n - off
        if kind == 'win':
            return self.len_of_axis() - tree[2] + 1 - off
        if kind == 'range':
            return tree[2] - tree[1] - off
        if kind == 'skip':
            return self._tree_len(tree[1], e, off + tree[2])
        if kind == 'take':
            return self._shortest([tree[2] - off, self._tree_len(tree[1], e, off)], e)
        if kind in ('enum', 'rev'):
            return self._tree_len(tree[1], e, off)
        if kind == 'zip':
            return self._shortest([self._tree_len(tree[1], e, off), self._tree_len(tree[2], e, off)], e)
        raise Unsupported("iterator adaptor %r" % (kind,), e)

    @classmethod
    def _has_rev(cls, tree):
        return tree[0] == 'rev' or any(isinstance(x, tuple) and cls._has_rev(x) for x in tree[1:])

    @classmethod
    def _first_mut_offset(cls, tree, off=0):
        if tree[0] == 'rows':
            return off if tree[2] else None
        if tree[0] == 'skip':
            return cls._first_mut_offset(tree[1], off + tree[2])
        for x in tree[1:]:
            if isinstance(x, tuple):
                r = cls._first_mut_offset(x, off)
                if r is not None:
                    return r
        return None

    @staticmethod
    def _shortest(lens, e):
        """std's zip stops at the shortest operand: the minimum of lengths of the form n - c"""
        best = lens[0]
        for l in lens[1:]:
            d = (l - best)
            if not (d.is_poly() and d.as_poly().is_const()):
                raise Unsupported("std Iterator::zip over operands whose lengths %s cannot be ordered" % [str(x) for x in lens], e)
            if d.as_poly().const_value() < 0:
                best = l
        return best

    def loop_call(self, frame, thunk):
        """a loop written as an iterator consumer (for_each / fold): hook for models that track loop-carried values"""
        return thunk()

    def iterate_rows(self, tree, run_body, e):
        """a loop / for_each over row iterators (std adaptors zip, skip, enumerate over axis_iter(_mut), windows): one inductive step
        with symbolic position j; rows written at position j + c become a generic entry over the index range they cover"""
        self.loop_vars += 1
        var = 'j%d' % self.loop_vars
        j = Rat.atom(var)
        # reversal: `rev()` of the whole chain, possibly followed by `skip(k)` (which then drops the LAST k positions)
        rev, back_skip = False, 0
        t_ = tree
        if t_[0] == 'skip' and t_[1][0] == 'rev':
            back_skip, t_ = t_[2], t_[1]
        if t_[0] == 'rev':
            rev, tree = True, t_[1]
        if self._has_rev(tree):
            raise Unsupported("rev() inside an iterator chain", e)
        # the loop variable is the array index of the first row that is written (position + its skip offset), so that what the
        # body computes is expressed by array index from the start
        c0 = Rat.const(self._first_mut_offset(tree) or 0)
        lens = []
        elem = self._rowiter_elem(tree, j - c0, lens, e)
        trip = self._shortest(lens, e)
        start, end = c0, c0 + trip - back_skip
        snapshot = [(t, dict(t.store)) for t in self.arrays]
        self.cur_loop = {'var': var, 'lo': start, 'hi': end - 1, 'rev': rev, 'where': line_of(e)}
        self.loops = getattr(self, 'loops', []) + [self.cur_loop]
        run_body(elem)
        for t, before in snapshot:
            for k, (idx, val) in list(t.store.items()):
                if k not in before or before[k][1] is not val:
                    if var in idx.atoms():
                        del t.store[k]
                        if k in before:
                            t.store[k] = before[k]
                        c = idx - j
                        if not (c.is_poly() and c.as_poly().is_const()):
                            raise Unsupported("row %s written from iterator position %s" % (idx_name(idx), var), e)
                        # express the entry by the array index it is written at: position = index - c
                        val2 = reindex(val, {var: j - c}) if not c.is_zero() else val
                        t.write_generic(var, start + c, end - 1 + c, val2, 'loop ' + line_of(e))
                        t.generic[-1]['idx'] = j
        self.cur_loop = None
        return Unit()

    def for_loop(self, iterable, pat, body, frame, e):
        it = deref_all(iterable)
        if isinstance(it, Obj) and it.kind == 'windows':
            it = Obj('rowiter', tree=('win', it.d['axis'], it.d['size']))
        if isinstance(it, Obj) and it.kind == 'rowiter':
            def run_body(elem):
                if not self.interp.match_pat(pat, ValPlace(elem), frame):
                    raise Unsupported("loop pattern over rows", e)
                self.interp.eval(body, frame)
            return self.iterate_rows(it.d['tree'], run_body, e)
        rev = False
        if isinstance(it, Obj) and it.kind == 'revrange':
            it = it.d['range']
            rev = True
        if isinstance(it, Enum) and it.adt == 'std::ops::Range':
            def run_body(jn):
                if not self.interp.match_pat(pat, ValPlace(jn), frame):
                    raise Unsupported("loop pattern", e)
                self.interp.eval(body, frame)
            return self.iterate_range(it, rev, run_body, e)
        raise Unsupported("loop over %r is not modelled" % (it,), e)

    def iterate_range(self, rng, rev, run_body, e):
        """a loop / for_each / fold over an index range: one inductive step with symbolic index j"""
        if True:
            start, end = deref_all(rng.fields['start']).r, deref_all(rng.fields['end']).r
            self.loop_vars += 1
            var = 'j%d' % self.loop_vars
            j = Rat.atom(var)
            # writes inside the body with index == f(j) become generic entries
            snapshot = [(t, dict(t.store)) for t in self.arrays]
            self.cur_loop = {'var': var, 'lo': start, 'hi': end - 1, 'rev': rev, 'where': line_of(e)}
            self.loops = getattr(self, 'loops', []) + [self.cur_loop]
            run_body(Num(j))
            for t, before in snapshot:
                for k, (idx, val) in list(t.store.items()):
                    if k not in before or before[k][1] is not val:
                        if var in idx.atoms():
                            del t.store[k]
                            if k in before:
                                t.store[k] = before[k]
                            # idx = j + c  ->  generic over idx-range
                            t.write_generic(var, start, end - 1, val, 'loop ' + line_of(e))
                            t.generic[-1]['idx'] = idx
            self.cur_loop = None
            return Unit()


def cubic_objects():
    x = Obj('axis', name='x')
    data = Obj('data', name='y', lead=1, idx=[])
    return x, data
