"""Model of the ndarray / num-traits surface used by the interpolation kernels.

Lane-generic view: an array of lanes (a row of the data, a row of a coefficient
array, the target) is represented by ONE symbolic scalar - the value in an
arbitrary lane.  This is exactly what `Zip::for_each` over such rows means, and
it is justified separately by C08 (no cross-lane operation exists).

Every ndarray call the library makes on these objects is listed here with its
meaning; anything else raises Unsupported (fail closed).
"""
from .absint import *
from .poly import Rat, Poly


def idx_name(r):
    """canonical text of an index expression"""
    return str(r)


def ax_atom(axis, idx):
    idx = idx if isinstance(idx, Rat) else Rat(Poly.const(idx)) if isinstance(idx, int) else idx
    return Rat.atom("%s[%s]" % (axis, idx_name(idx)))


def data_atom(name, idxs):
    return Rat.atom("%s[%s]" % (name, ",".join(idx_name(i) for i in idxs)))


REL6 = ('below', 'first', 'inside', 'last', 'above', 'nan')
# truth of (q OP endpoint) for endpoint in {first,last} under each scenario
_REL = {
    'below':  {'first': 'lt', 'last': 'lt'},
    'first':  {'first': 'eq', 'last': 'lt'},
    'inside': {'first': 'gt', 'last': 'lt'},
    'last':   {'first': 'gt', 'last': 'eq'},
    'above':  {'first': 'gt', 'last': 'gt'},
    'nan':    {'first': 'un', 'last': 'un'},
}
_TT = {'lt': {'lt': True, 'le': True, 'gt': False, 'ge': False, 'eq': False, 'ne': True},
       'eq': {'lt': False, 'le': True, 'gt': False, 'ge': True, 'eq': True, 'ne': False},
       'gt': {'lt': False, 'le': False, 'gt': True, 'ge': True, 'eq': False, 'ne': True},
       'un': {'lt': False, 'le': False, 'gt': False, 'ge': False, 'eq': False, 'ne': True}}
_FLIP = {'lt': 'gt', 'gt': 'lt', 'eq': 'eq', 'un': 'un'}
# relation of the query to (lower, upper) end of the bracket the lookup returns, per range scenario
_BRACKET = {'below': ('lt', 'lt'), 'first': ('eq', 'lt'), 'inside': ('ge', 'lt'), 'last': ('gt', 'eq'), 'above': ('gt', 'gt'), 'nan': ('un', 'un')}


class KModel(Model):
    def __init__(self, scn=None):
        super().__init__()
        self.scn = dict(scn or {})
        self.writes = []         # (target label, Rat)
        self.lookups = []        # (axis, query Rat)
        self.range_tests = []    # (axis, endpoint, query) comparisons answered from the scenario
        self.reads = []          # atoms handed out (rows / axis values)
        self.cmp_log = []
        self.uninterp = {}       # atom name -> (fn, args) for uninterpreted functions (rem_euclid)
        self.events = []

    # ---------------------------------------------------------------- objects
    def axis(self, name):
        return Obj('axis', name=name)

    def data(self, name, lead):
        return Obj('data', name=name, lead=lead, idx=[])

    def len_of(self, axis_name):
        n = self.scn.get('n_' + axis_name)
        if n is not None:
            return Num(n)
        return Num(Rat.atom('n_' + axis_name))

    # ---------------------------------------------------------------- comparisons
    def compare(self, op, a, b, e):
        if isinstance(a, Num) and isinstance(b, Num):
            sa, sb = str(a.r), str(b.r)
            for (p, q, flip) in ((sa, sb, False), (sb, sa, True)):
                # p is a query atom, q an axis endpoint?
                ax = self._endpoint(q)
                if ax is not None and p in self.scn.get('queries', {}):
                    axis, which = ax
                    want_axis = self.scn['queries'][p]
                    if axis != want_axis:
                        raise Unsupported("query `%s` is compared with an endpoint of axis `%s` (expected axis `%s`)" %
                                          (p, axis, want_axis), e)
                    rel = _REL[self.scn['rel_' + axis]][which]   # relation of query to endpoint
                    if flip:
                        rel = _FLIP[rel]
                    self.range_tests.append((axis, which, p, op if not flip else 'flipped-' + op))
                    return _TT[rel][op]
            # query vs the ends of the looked-up bracket (postcondition of the lookup, C11)
            for (p, q, flip) in ((sa, sb, False), (sb, sa, True)):
                if p in self.scn.get('queries', {}):
                    axis = self.scn['queries'][p]
                    which = None
                    if q == "%s[i_%s]" % (axis, axis):
                        which = 0
                    elif q == "%s[1 + i_%s]" % (axis, axis):
                        which = 1
                    if which is not None and ('rel_' + axis) in self.scn:
                        rel = _BRACKET[self.scn['rel_' + axis]][which]
                        if flip:
                            rel = {'lt': 'gt', 'gt': 'lt', 'eq': 'eq', 'un': 'un', 'ge': 'le'}[rel]
                        if rel in _TT:
                            return _TT[rel][op]
                        # 'ge' / 'le': strictness unknown
                        known = {'ge': {'lt': False, 'ge': True}, 'le': {'gt': False, 'le': True}}[rel]
                        if op in known:
                            return known[op]
                        raise Unsupported("comparison %s of the query with the lower end of its bracket is not determined by the scenario" % op, e)
            # length scenario: n_x compared with constants
            for (x, y, flip) in ((a, b, False), (b, a, True)):
                if str(x.r).startswith('n_') and y.const() is not None and x.r.is_poly() and len(x.r.atoms()) == 1:
                    lo = self.scn.get('min_' + str(x.r), None)
                    if lo is not None:
                        c = y.const()
                        o = op if not flip else {'lt': 'gt', 'le': 'ge', 'gt': 'lt', 'ge': 'le', 'eq': 'eq', 'ne': 'ne'}[op]
                        # x >= lo known
                        if o in ('lt', 'le') and (c < lo):
                            return False
                        if o == 'lt' and c == lo:
                            return False
                        if o in ('gt', 'ge') and c < lo:
                            return True
                        if o == 'ge' and c == lo:
                            return True
                        if o == 'eq' and c < lo:
                            return False
                        if o == 'ne' and c < lo:
                            return True
        return super().compare(op, a, b, e)

    def _endpoint(self, s):
        # "x[0]" / "x[-1 + n_x]"
        if s.endswith('[0]'):
            return (s[:-3], 'first')
        for axn in ('x', 'y'):
            if s == "%s[%s]" % (axn, idx_name(Rat.atom('n_' + axn) - 1)):
                return (axn, 'last')
            n = self.scn.get('n_' + axn)
            if n is not None and s == "%s[%d]" % (axn, n - 1):
                return (axn, 'last')
        return None

    # ---------------------------------------------------------------- calls
    def named_const(self, def_path, node):
        return NotImplemented

    def call(self, name, cal, args, e, frame):
        last = name.split('::')[-1]
        a0 = deref_all(args[0]) if args else None
        nd = (cal.get('crate') == 'ndarray') or ('ndarray::' in (cal.get('resolved') or ''))
        if name == 'num_traits::cast':
            v = deref_all(args[0])
            if isinstance(v, Num):
                return self.cast(v, cal, e)
            return NotImplemented
        if name in ('num_traits::ToPrimitive::to_usize', 'num_traits::cast::ToPrimitive::to_usize') and isinstance(a0, Num):
            # what `cast::<_, usize>(v)` does for a NumCast source (num-traits implements NumCast for usize through to_usize)
            return self.cast(a0, dict(cal, gargs=[(cal.get('gargs') or ['T'])[0] if (cal.get('gargs') or ['T'])[0] != 'usize' else 'T', 'usize']), e)
        if name == 'num_traits::Euclid::rem_euclid':
            a, b = deref_all(args[0]), deref_all(args[1])
            nm = "rem_euclid(%s;%s)" % (a.r, b.r)
            self.uninterp[nm] = ('rem_euclid', a.r, b.r)
            return Num(Rat.atom(nm))
        if name in ('VectorExtensions::get_lower_index',
                    '<ndarray::ArrayBase as VectorExtensions>::get_lower_index'):
            if isinstance(a0, Obj) and a0.kind == 'axis':
                q = deref_all(args[1])
                self.lookups.append((a0.d['name'], q.r))
                return Num(Rat.atom('i_' + a0.d['name']))
            return NotImplemented
        if not nd:
            return NotImplemented
        # ---- ndarray surface
        if isinstance(a0, Obj) and a0.kind == 'axis':
            axn = a0.d['name']
            if last == 'len':
                return self.len_of(axn)
            if last == 'index':
                i = deref_all(args[1])
                if not isinstance(i, Num):
                    raise Unsupported("axis index %r" % (i,), e)
                at = ax_atom(axn, i.r)
                self.reads.append(str(at))
                return Ref(ValPlace(Num(at)))
            if last in ('view', 'to_owned', 'into_owned', 'clone'):
                return a0
        if isinstance(a0, Obj) and a0.kind == 'data':
            if last in ('index_axis', 'index_axis_move', 'index_axis_mut'):
                axv = deref_all(args[1])
                i = deref_all(args[2])
                if not (isinstance(axv, Enum) and axv.adt == 'ndarray::Axis' and
                        isinstance(axv.fields.get('0'), Num) and axv.fields['0'].const() == 0):
                    raise Unsupported("index_axis on an axis other than Axis(0): %r" % (axv,), e)
                idx = a0.d['idx'] + [i.r]
                if len(idx) == a0.d['lead']:
                    at = data_atom(a0.d['name'], idx)
                    self.reads.append(str(at))
                    return Obj('lanes', r=at)
                return Obj('data', name=a0.d['name'], lead=a0.d['lead'], idx=idx)
            if last in ('view', 'to_owned', 'into_owned'):
                return a0
        if isinstance(a0, Obj) and a0.kind == 'lanes':
            if last in ('view', 'to_owned', 'into_owned', 'clone', 'view_mut'):
                return a0
        if last == 'scaled_add' and isinstance(a0, Obj) and a0.kind == 'target':
            # ndarray's `self += alpha * rhs` (rhs broadcast to self's shape): the new lane value mentions the old one
            alpha, rhs = deref_all(args[1]), deref_all(args[2])
            if isinstance(alpha, Num) and isinstance(rhs, Obj) and rhs.kind == 'lanes':
                t = self.lane_arg(a0, e)
                self.events.append(('scaled_add', [('target', a0.d.get('label', 'target')), ('lanes', str(rhs.d['r']))], len(self.writes)))
                t.place.set(Num(deref_all(t.place.get()).r + alpha.r * rhs.d['r']))
                return Unit()
        if last == 'from' and name.startswith('ndarray::Zip'):
            return Obj('zip', parts=[deref_all(args[0])])
        if last == 'and' and isinstance(a0, Obj) and a0.kind == 'zip':
            return Obj('zip', parts=a0.d['parts'] + [deref_all(args[1])])
        if last == 'for_each' and isinstance(a0, Obj) and a0.kind == 'zip':
            return self.zip_for_each(a0, args[1], e)
        if last == 'map_assign_into' and isinstance(a0, Obj) and a0.kind == 'zip':
            return self.zip_map_assign(a0, deref_all(args[1]), args[2], e)
        return NotImplemented

    def cast(self, v, cal, e):
        # num_traits::cast::<Src, T>(literal) : the literal itself (T represents small integers/halves exactly)
        return SOME(v)

    # ---------------------------------------------------------------- zip
    def lane_arg(self, part, e):
        """the per-lane element handed to the closure for this Zip operand"""
        if isinstance(part, Obj) and part.kind == 'lanes':
            return Ref(ValPlace(Num(part.d['r'])))
        if isinstance(part, Obj) and part.kind == 'target':
            label = part.d.get('label', 'target')

            def setter(v, label=label):
                v = deref_all(v)
                if not isinstance(v, Num):
                    raise Unsupported("non-numeric value %r written to the target" % (v,), e)
                self.writes.append((label, v.r))

            def getter(label=label):
                for l, r in reversed(self.writes):
                    if l == label:
                        return Num(r)
                return Num(Rat.atom(label + '.old'))
            return Ref(FnPlace(getter, setter, label), mut=True)
        raise Unsupported("Zip operand %r is not a lane array known to the model" % (part,), e)

    def zip_for_each(self, z, clo, e):
        args = [self.lane_arg(p, e) for p in z.d['parts']]
        self.events.append(('zip_for_each', [(p.kind, str(p.d.get('r', p.d.get('label', '')))) for p in z.d['parts']], len(self.writes)))
        self.interp.apply(clo, args, e)
        return Unit()

    def zip_map_assign(self, z, target, clo, e):
        # `Zip::map_assign_into(target, f)` is `Zip::and(target).for_each(|.., t| *t = f(..))` (ndarray 0.16)
        allp = list(z.d['parts']) + [deref_all(target)]
        self.events.append(('zip_for_each', [(p.kind, str(p.d.get('r', p.d.get('label', '')))) if isinstance(p, Obj) else ('?', '') for p in allp], len(self.writes)))
        args = [self.lane_arg(p, e) for p in z.d['parts']]
        v = deref_all(self.interp.apply(clo, args, e))
        t = self.lane_arg(target, e)
        t.place.set(v)
        return Unit()

    def field_of_opaque(self, base, name, e):
        return NotImplemented


AX0_ENUM = Enum('ndarray::Axis', 'Axis', {'0': Num(0)})


def interp1d_obj(strategy):
    from . import layout
    return layout.make('Interp1D', x=Obj('axis', name='x'), data=Obj('data', name='y', lead=1, idx=[]), strategy=strategy)


def interp2d_obj(strategy):
    from . import layout
    return layout.make('Interp2D', x=Obj('axis', name='x'), y=Obj('axis', name='y'), data=Obj('data', name='z', lead=2, idx=[]), strategy=strategy)
