"""Self-test of the checker: seeded violations (one broken instance each) are applied to a scratch copy of /repo
(outside /repo and /verif), the named checks must fire, and the copy is deleted.  Nothing here touches /repo."""
import json, os, shutil, subprocess, sys, tempfile, concurrent.futures as cf

VERIF = os.path.dirname(os.path.dirname(os.path.abspath(__file__)))
REPO = os.environ.get("NDI_REPO", "/repo")
ALL = ["C%02d" % i for i in range(1, 21)]


def mutants():
    res = []
    d = os.path.join(VERIF, "selftest")
    for f in sorted(os.listdir(d)):
        if f.endswith(".diff"):
            res.append((f[:-5], os.path.join(d, f)))
    sd = os.path.join(VERIF, "seeded")
    if os.path.isdir(sd):
        for name in sorted(os.listdir(sd)):
            p = os.path.join(sd, name, "patch.diff")
            if os.path.exists(p):
                res.append(("seeded/" + name, p))
    return res


def expectations():
    p = os.path.join(VERIF, "selftest", "expect.json")
    return json.load(open(p)) if os.path.exists(p) else {}


def scratch_copy():
    d = tempfile.mkdtemp(prefix="ndi-selftest-")
    # the seeded changes are diffs against the committed tree: start from HEAD (also immune to a working tree that is being edited)
    tar = subprocess.run(["git", "-C", REPO, "archive", "HEAD"], capture_output=True)
    if tar.returncode == 0 and subprocess.run(["tar", "-x", "-C", d], input=tar.stdout).returncode == 0:
        return d
    files = subprocess.check_output(["git", "-C", REPO, "ls-files"], text=True).split("\n")
    for f in files:
        if not f or f.startswith(("benches/", ".github/")):
            continue
        src = os.path.join(REPO, f)
        dst = os.path.join(d, f)
        os.makedirs(os.path.dirname(dst), exist_ok=True)
        if os.path.exists(src):
            shutil.copyfile(src, dst)
    # benches are declared in Cargo.toml: keep the manifest loadable
    for f in files:
        if f.startswith("benches/"):
            dst = os.path.join(d, f)
            os.makedirs(os.path.dirname(dst), exist_ok=True)
            shutil.copyfile(os.path.join(REPO, f), dst)
    return d


def run_one(args):
    name, patch, props, worker = args
    d = scratch_copy()
    try:
        r = subprocess.run(["patch", "-p1", "-s", "--no-backup-if-mismatch", "-i", patch], cwd=d, capture_output=True, text=True)
        if r.returncode != 0:
            return name, "skipped (patch does not apply to the current tree)", {}
        env = dict(os.environ, NDI_REPO=d, NDI_EVID_DIR=os.path.join(d, "evidence"), NDI_TARGET_SUFFIX="-st%s" % worker)
        res = {}
        for p in props:
            rr = subprocess.run([os.path.join(VERIF, "check"), p, "--tier", "quick"], env=env, capture_output=True, text=True)
            lines = [l for l in rr.stdout.splitlines() if l.startswith("  ")]
            res[p] = {"exit": rr.returncode, "first": lines[0][:300] if lines else "", "n": len(lines)}
        return name, "ok", res
    finally:
        shutil.rmtree(d, ignore_errors=True)


def run(selected=None, props=None, workers=6, slot_base=''):
    exp = expectations()
    jobs = []
    for i, (name, patch) in enumerate(mutants()):
        if selected and name not in selected:
            continue
        ps = props or exp.get(name, {}).get("fires") or ALL
        jobs.append((name, patch, ps, '%s%d' % (slot_base, i % workers)))
    out = {}
    # one job per worker slot at a time (each slot owns a cargo target dir)
    by_worker = {}
    for j in jobs:
        by_worker.setdefault(j[3], []).append(j)

    def run_slot(js):
        return [run_one(j) for j in js]
    with cf.ThreadPoolExecutor(max_workers=workers) as ex:
        for lst in ex.map(run_slot, by_worker.values()):
            for name, status, res in lst:
                out[name] = {"status": status, "results": res}
    return out


def for_property(pid, workers=6):
    """kill report of the mutants that are expected to make `pid` fire"""
    exp = expectations()
    sel = [n for n, e in exp.items() if pid in e.get("fires", []) and not e.get("false_alarm")]
    neutral = [n for n, e in exp.items() if not e.get("fires") and n.startswith("neutral_")]
    if not sel and not neutral:
        return {"mutants": 0, "killed": 0, "missed": [], "skipped": []}
    out = run(selected=sel + neutral, props=[pid], workers=workers)
    killed, missed, skipped = [], [], []
    for n in sel:
        o = out.get(n)
        if o is None or o["status"] != "ok":
            skipped.append(n)
        elif o["results"][pid]["exit"] == 1:
            killed.append(n)
        else:
            missed.append(n)
    false_alarms = [n for n in neutral if out.get(n, {}).get("status") == "ok" and out[n]["results"][pid]["exit"] == 1]
    return {"mutants": len(sel), "killed": len(killed), "missed": missed, "skipped": skipped, "names": killed,
            "behaviour_preserving_refactors": len(neutral), "false_alarms_on_refactors": false_alarms}


if __name__ == "__main__":
    if len(sys.argv) > 1 and sys.argv[1] == "matrix":
        sel = sys.argv[2:] or None
        out = run(selected=sel, props=ALL, workers=int(os.environ.get("NDI_MATRIX_WORKERS", "8")), slot_base=os.environ.get("NDI_MATRIX_SLOT", ""))
        for n in sorted(out):
            o = out[n]
            fires = [p for p, r in o["results"].items() if r["exit"] == 1]
            print(n, o["status"], "fires:", " ".join(fires))
        json.dump(out, open(os.environ.get("NDI_MATRIX_OUT", "/tmp/ndi-matrix.json"), "w"), indent=1)
        # the per-slot cargo target directories of a matrix run are scratch: remove them
        tdir = os.path.join(VERIF, ".target")
        for d in os.listdir(tdir):
            if "-st" + os.environ.get("NDI_MATRIX_SLOT", "") in d:
                shutil.rmtree(os.path.join(tdir, d), ignore_errors=True)
