"""Result collection, evidence files, known findings, VIOLATION lines."""
import hashlib, json, os, re, time

VERIF = os.path.dirname(os.path.dirname(os.path.abspath(__file__)))
EVID = os.environ.get("NDI_EVID_DIR") or os.path.join(VERIF, "evidence")
REPLAY = os.path.join(EVID, "replay")


class Check:
    def __init__(self, pid, tier, level="other"):
        self.pid = pid
        self.tier = tier
        self.level = level
        self.t0 = time.time()
        self.violations = []      # dicts
        self.obligations = []     # dicts {rule, desc, ok}
        self.samples = []
        self.analysed = {}
        self.assumptions = []
        self.trusted = []
        self.explanation = ""
        self.rules = {}           # rule id -> description
        self.technique = ""
        self.exhaustive = False

    # ---- recording -------------------------------------------------------
    def rule(self, rid, desc):
        self.rules[rid] = desc

    def count(self, key, n=1):
        self.analysed[key] = self.analysed.get(key, 0) + n

    def note(self, key, value):
        self.analysed[key] = value

    def sample(self, s):
        if len(self.samples) < 40:
            self.samples.append(s)

    def violation(self, rule, key, where, msg, detail=None):
        """key: stable identifier (rule, role, instance) without line numbers."""
        full = "%s:%s" % (rule, key)
        for v in self.violations:
            if v["key"] == full:
                return
        self.violations.append({"rule": rule, "key": full, "where": where, "msg": msg,
                                "detail": detail})

    def ob(self, rule, desc, ok, where="", key=None, detail=None):
        """Record a proof obligation; a failed one is a violation."""
        self.obligations.append({"rule": rule, "desc": desc, "ok": bool(ok)})
        if not ok:
            self.violation(rule, key or _slug(desc), where, desc, detail)
        return bool(ok)

    def require(self, cond, rule, key, where, msg, detail=None):
        """Fail closed: anchors, floors, recognised shapes."""
        return self.ob(rule, msg, cond, where, key, detail)

    def floor(self, rule, what, found, floor):
        self.note("count:" + what, found)
        return self.ob(rule, "instance count of '%s' is %d, hand-confirmed floor %d" % (what, found, floor),
                       found >= floor, key="floor-" + _slug(what))

    # ---- finishing -------------------------------------------------------
    def finish(self):
        os.makedirs(REPLAY, exist_ok=True)
        known = _load_known(self.pid)
        out_lines = []
        unknown = 0
        for v in self.violations:
            if v["key"] in known:
                out_lines.append("KNOWN-FINDING: property=%s %s (%s)" % (self.pid, known[v["key"]], v["key"]))
                continue
            unknown += 1
            rp = os.path.join(REPLAY, "%s-%s-%s.json" % (self.pid, _slug(v["key"])[:60], hashlib.md5(v["key"].encode()).hexdigest()[:8]))
            with open(rp, "w") as fh:
                json.dump({"property": self.pid, "rule": v["rule"], "rule_text": self.rules.get(v["rule"], ""),
                           "key": v["key"], "where": v["where"], "message": v["msg"], "detail": v["detail"]},
                          fh, indent=1, default=str)
            out_lines.append("  %s at %s: %s" % (v["key"], v["where"], v["msg"]))
            out_lines.append("VIOLATION property=%s replay=%s" % (self.pid, rp))
        wall = round(time.time() - self.t0, 3)
        nob = len(self.obligations)
        ndis = sum(1 for o in self.obligations if o["ok"])
        distinct = len({(o["rule"], o["desc"]) for o in self.obligations})
        cov = {
            "explanation": self.explanation,
            "technique": self.technique,
            "obligations": nob,
            "discharged": ndis,
            "evaluations": max(nob, 1),
            "distinct_nontrivial": max(distinct, 0),
            "rule": "every obligation is one instance of a rule listed under 'rules' evaluated on the facts "
                    "extracted from /repo's current tree; distinct = distinct (rule, instance) pairs",
            "rules": self.rules,
            "analysed": self.analysed,
            "samples": self.samples[:40] or ["(none)"],
            "checker_cmd": "./check %s --tier %s" % (self.pid, self.tier),
            "trusted_base": self.trusted,
            "exhaustive": self.exhaustive,
            "failed_obligations": [o for o in self.obligations if not o["ok"]][:50],
            "obligations_per_rule": _per_rule(self.obligations),
            "obligation_samples": _spread(self.obligations, 40),
        }
        ev = {
            "property_id": self.pid,
            "tier": self.tier,
            "seed": int(os.environ.get("VERIF_SEED", "0") or 0),
            "level": self.level,
            "coverage": cov,
            "assumptions": self.assumptions,
            "wall_s": wall,
            "violations": unknown,
        }
        os.makedirs(EVID, exist_ok=True)
        with open(os.path.join(EVID, "%s.json" % self.pid), "w") as fh:
            json.dump(ev, fh, indent=1, default=str)
        print("%s [%s] obligations=%d discharged=%d violations=%d wall=%.1fs" %
              (self.pid, self.tier, nob, ndis, unknown, wall))
        for l in out_lines:
            print(l)
        return 1 if unknown else 0


def _per_rule(obs):
    d = {}
    for o in obs:
        d[o["rule"]] = d.get(o["rule"], 0) + 1
    return d


def _spread(obs, n):
    """up to n obligations spread over all rules (what they look like)"""
    by = {}
    for o in obs:
        by.setdefault(o["rule"], []).append(o)
    res = []
    i = 0
    while len(res) < n and any(by.values()):
        for r in list(by):
            if by[r] and len(res) < n:
                o = by[r].pop(0)
                res.append("%s: %s" % (o["rule"], o["desc"][:300]))
        i += 1
    return res


def _slug(s):
    return re.sub(r"[^A-Za-z0-9_.-]+", "_", str(s)).strip("_")[:160]


def _load_known(pid):
    p = os.path.join(VERIF, "known_findings.json")
    try:
        with open(p) as fh:
            k = json.load(fh)
    except OSError:
        return {}
    res = {}
    for e in k.get("known", []):
        if e.get("property") == pid:
            res[e["key"]] = e.get("what", "")
    return res
