"""Frozen who-may-call tables (E5).  Every entry was confirmed by reading the
ndarray 0.16.1 sources in the cargo registry; one line of reason each."""

# --- layout-sensitive API of ndarray::ArrayBase & friends (C13) -------------
LAYOUT_SENSITIVE = {
    'as_ptr': "raw pointer to first element: offsets depend on strides",
    'as_mut_ptr': "raw pointer to first element: offsets depend on strides",
    'get_ptr': "raw element pointer",
    'get_mut_ptr': "raw element pointer",
    'as_slice': "Some only for standard (C) layout",
    'as_slice_mut': "Some only for standard (C) layout",
    'as_slice_memory_order': "element order follows memory order, not logical order",
    'as_slice_memory_order_mut': "element order follows memory order, not logical order",
    'into_slice': "Some only for standard layout",
    'to_slice': "Some only for standard layout",
    'into_slice_memory_order': "memory order",
    'to_slice_memory_order': "memory order",
    'raw_view': "raw view exposes strides/pointer",
    'raw_view_mut': "raw view exposes strides/pointer",
    'into_raw_vec': "backing storage in memory order",
    'into_raw_vec_and_offset': "backing storage in memory order",
    'into_shape': "errors unless the array is contiguous in the requested order",
    'into_shape_with_order': "errors with 'incompatible memory layout' unless standard/F layout (defect D2)",
    'reshape': "panics unless contiguous",
    'merge_axes': "success depends on strides",
    'is_standard_layout': "a branch on it makes behaviour layout dependent",
    'strides': "exposes strides",
    'stride_of': "exposes strides",
    'max_stride_axis': "exposes stride order",
    'min_stride_axis': "exposes stride order",
    'from_shape_ptr': "constructs a view from pointer+strides",
    'fold': "visits elements in arbitrary (memory) order: float accumulation is layout dependent",
    'sum': "uses an unrolled fold on contiguous memory, lane sums otherwise: bits depend on layout",
    'product': "same as sum",
    'mean': "built on sum",
    'var': "order-dependent accumulation",
    'std': "order-dependent accumulation",
    'sum_axis': "accumulation order may depend on stride order",
    'mean_axis': "built on sum_axis",
    'product_axis': "see sum_axis",
    'var_axis': "see sum_axis",
    'std_axis': "see sum_axis",
    'dot': "kernel (BLAS / unrolled) chosen by layout: bits depend on layout",
    'general_mat_mul': "kernel chosen by layout",
    'general_mat_vec_mul': "kernel chosen by layout",
    'scaled_add': "elementwise, but listed with linalg: allowed",  # removed below
    'is_contiguous': "layout query",
}
del LAYOUT_SENSITIVE['scaled_add']

# std/core functions that reinterpret memory (used for the unsafe who-may-call rule)
RAW_MEMORY_FNS = ('transmute', 'transmute_copy', 'read', 'write', 'read_unaligned', 'write_unaligned',
                  'from_raw_parts', 'from_raw_parts_mut', 'copy_nonoverlapping', 'copy', 'offset', 'add', 'sub')

# --- callee crates the library may touch (C17: no hidden global state / nondeterminism)
ALLOWED_CRATES = {'core', 'std', 'alloc', 'ndarray', 'num_traits', 'ndarray_interp', 'thiserror'}

# path prefixes (generic-stripped) that introduce global state, interior mutability or nondeterminism
STATEFUL_PREFIXES = {
    'std::cell::': "interior mutability",
    'core::cell::': "interior mutability",
    'std::sync::': "shared mutable state (Mutex/RwLock/atomics/Once*/mpsc)",
    'core::sync::': "atomics",
    'std::thread::': "thread-local / thread identity",
    'std::time::': "wall clock",
    'std::env::': "process environment",
    'std::fs::': "file system",
    'std::io::': "I/O",
    'std::net::': "network",
    'std::process::': "process state",
    'std::collections::hash_map::RandomState': "randomised hashing",
    'std::hash::random': "randomised hashing",
    'std::random': "randomness",
    'std::ptr::write': "raw write",
    'core::ptr::write': "raw write",
    'std::intrinsics::': None,  # decided per intrinsic below
}
PURE_INTRINSICS = {'discriminant_value'}

# --- cross-lane operations on lane-carrying arrays (C08) ---------------------
CROSS_LANE = {
    'sum': "reduces over all axes", 'product': "reduces over all axes", 'mean': "reduces over all axes",
    'var': "reduction", 'std': "reduction", 'sum_axis': "reduces an axis (mixes lanes unless axis 0 of a per-lane op)",
    'mean_axis': "reduction", 'product_axis': "reduction", 'var_axis': "reduction", 'std_axis': "reduction",
    'fold': "reduction", 'fold_axis': "reduction", 'dot': "contracts axes", 'general_mat_mul': "contracts axes",
    'general_mat_vec_mul': "contracts axes", 'kron': "mixes all elements",
    'map_axis': "per-lane callback along an axis", 'map_axis_mut': "per-lane callback along an axis",
    'accumulate_axis_inplace': "prefix scan along an axis",
    'swap_axes': "permutes axes", 'permuted_axes': "permutes axes", 'reversed_axes': "permutes axes", 't': "transposes",
    'invert_axis': "reverses an axis", 'broadcast': "replicates lanes", 'into_shape': "reinterprets the index space",
    'into_shape_with_order': "reinterprets the index space", 'into_shape_clone': "reinterprets the index space",
    'to_shape': "reinterprets the index space", 'reshape': "reinterprets the index space", 'flatten': "flattens",
    'flatten_with_order': "flattens", 'into_flat': "flattens", 'merge_axes': "merges axes",
    'lanes': "iterates 1-D lanes along an arbitrary axis", 'lanes_mut': "iterates 1-D lanes along an arbitrary axis",
    'rows': "lanes along the last axis", 'rows_mut': "lanes along the last axis",
    'columns': "lanes along axis 0 (would be fine, but unreviewed)", 'columns_mut': "lanes along axis 0",
    'diag': "diagonal mixes lanes", 'diag_mut': "diagonal", 'into_diag': "diagonal",
    'select': "gathers along an axis", 'swap': "swaps two elements", 'max_stride_axis': "layout", 'min_stride_axis': "layout",
    'iter': "flat iteration over all lanes", 'iter_mut': "flat iteration over all lanes",
    'indexed_iter': "flat iteration over all lanes", 'indexed_iter_mut': "flat iteration over all lanes",
    'for_each': "flat visit (fine if stateless, but unreviewed)", 'first': "single element of one lane",
    'last': "single element of one lane", 'get': "single element", 'get_mut': "single element",
    'first_mut': "single element", 'last_mut': "single element", 'to_vec': "flattens", 'scaled_add': "fine elementwise; unreviewed",
    'slice_collapse': "collapses axes", 'collapse_axis': "collapses an axis", 'zip_mut_with': "elementwise, broadcasting rhs",
    'windows': "moving windows mix neighbours", 'axis_windows': "moving windows", 'exact_chunks': "chunks",
    'exact_chunks_mut': "chunks", 'axis_chunks_iter': "chunks", 'axis_chunks_iter_mut': "chunks",
    'remove_index': "removes an index", 'insert_axis': "changes rank", 'squeeze': "changes rank",
    # flat / raw access hands out all lanes at once, in memory order
    'as_slice': "flat access to all lanes", 'as_slice_mut': "flat access to all lanes", 'as_slice_memory_order': "flat access to all lanes in memory order",
    'as_slice_memory_order_mut': "flat access to all lanes in memory order", 'as_ptr': "raw access", 'as_mut_ptr': "raw access",
    'into_slice': "flat access", 'to_slice': "flat access", 'into_slice_memory_order': "flat access in memory order",
    'to_slice_memory_order': "flat access in memory order", 'raw_view': "raw access", 'raw_view_mut': "raw access", 'into_raw_vec': "raw storage",
    'into_raw_vec_and_offset': "raw storage",
}
