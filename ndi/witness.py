"""Type-level witnesses (E6): small downstream crates, generated here, that are
*type-checked* (never run) against /repo's current tree.  A witness that stops
compiling is reported with rustc's own diagnostic."""
import os, shutil, subprocess, hashlib
from . import facts

WDIR = os.path.join(facts.VERIF, ".cache", "witness" + facts.TSUFFIX)


def _write_crate(name, src, extra_files=None):
    d = os.path.join(WDIR, name)
    os.makedirs(os.path.join(d, "src"), exist_ok=True)
    with open(os.path.join(d, "Cargo.toml"), "w") as fh:
        fh.write('[package]\nname = "%s"\nversion = "0.0.0"\nedition = "2021"\n\n[lib]\npath = "src/lib.rs"\n\n'
                 '[dependencies]\nndarray-interp = { path = "%s" }\nndarray = "0.16"\nnum-traits = "0.2"\n\n[workspace]\n'
                 % (name, facts.REPO))
    shutil.copyfile(os.path.join(facts.REPO, "Cargo.lock"), os.path.join(d, "Cargo.lock"))
    with open(os.path.join(d, "src", "lib.rs"), "w") as fh:
        fh.write(src)
    for rel, content in (extra_files or {}).items():
        p = os.path.join(d, rel)
        os.makedirs(os.path.dirname(p), exist_ok=True)
        with open(p, "w") as fh:
            fh.write(content)
    return d


def typecheck(name, src):
    """cargo check the generated crate. Returns (ok, stderr)."""
    d = _write_crate(name, src)
    env = dict(os.environ, CARGO_NET_OFFLINE="true", CARGO_TARGET_DIR=os.path.join(facts.TARGET, "witness" + facts.TSUFFIX),
               RUSTFLAGS="-Awarnings")
    env.pop("RUSTC_WORKSPACE_WRAPPER", None)
    r = subprocess.run(["cargo", "+nightly", "check", "--offline", "--lib"], cwd=d, env=env,
                       capture_output=True, text=True)
    return r.returncode == 0, r.stderr


PRELUDE = """#![allow(unused, dead_code)]
use ndarray::*;
use ndarray_interp::interp1d::*;
use ndarray_interp::interp1d::cubic_spline::*;
use ndarray_interp::interp2d::*;
"""

STORAGES = [("OwnedRepr<f64>", "owned"), ("ViewRepr<&'static f64>", "view"), ("OwnedArcRepr<f64>", "shared"),
            ("OwnedRepr<f32>", "owned32")]
DIMS1 = ["Ix1", "Ix2", "Ix3", "Ix4", "Ix5", "Ix6", "IxDyn"]
DIMS2 = ["Ix2", "Ix3", "Ix4", "Ix5", "Ix6", "IxDyn"]


def send_sync_source():
    lines = [PRELUDE, "fn is_send_sync<T: Send + Sync>() {}", "pub fn witness_send_sync() {"]
    n = 0
    for s, _ in STORAGES:
        elem = "f32" if "f32" in s else "f64"
        for d in DIMS1:
            lines.append("    is_send_sync::<Interp1D<%s, %s, %s, Linear>>();" % (s, s, d))
            lines.append("    is_send_sync::<Interp1D<%s, %s, %s, CubicSplineStrategy<%s, %s>>>();" % (s, s, d, s, d))
            lines.append("    is_send_sync::<CubicSpline<%s, %s>>();" % (elem, d))
            n += 3
        for d in DIMS2:
            lines.append("    is_send_sync::<Interp2D<%s, %s, %s, %s, Bilinear>>();" % (s, s, s, d))
            n += 1
    lines.append("}")
    # shared-reference use from two threads: every query entry point through `&`
    lines.append("""
pub fn witness_shared_1d<S: Interp1DStrategy<OwnedRepr<f64>, OwnedRepr<f64>, Ix2> + Sync>(
    i: &Interp1D<OwnedRepr<f64>, OwnedRepr<f64>, Ix2, S>,
    q: &Array2<f64>,
) {
    std::thread::scope(|sc| {
        for _ in 0..2 {
            sc.spawn(|| {
                let _ = i.interp(0.5);
                let mut b = Array1::<f64>::zeros(1);
                let _ = i.interp_into(0.5, b.view_mut());
                let _ = i.interp_array(q);
                let mut b3 = Array3::<f64>::zeros((1, 1, 1));
                let _ = i.interp_array_into(q, b3.view_mut());
                let _ = i.index_point(0);
                let _ = i.get_index_left_of(0.5);
                let _ = i.is_in_range(0.5);
            });
        }
    });
}
pub fn witness_shared_scalar(i: &Interp1D<OwnedRepr<f64>, OwnedRepr<f64>, Ix1, Linear>) {
    std::thread::scope(|sc| { sc.spawn(|| { let _ = i.interp_scalar(0.5); }); sc.spawn(|| { let _ = i.interp_scalar(0.5); }); });
}
pub fn witness_shared_2d(i: &Interp2D<OwnedRepr<f64>, OwnedRepr<f64>, OwnedRepr<f64>, Ix3, Bilinear>, q: &Array2<f64>) {
    std::thread::scope(|sc| {
        for _ in 0..2 {
            sc.spawn(|| {
                let _ = i.interp(0.5, 0.5);
                let mut b = Array1::<f64>::zeros(1);
                let _ = i.interp_into(0.5, 0.5, b.view_mut());
                let _ = i.interp_array(q, q);
                let mut b3 = Array3::<f64>::zeros((1, 1, 1));
                let _ = i.interp_array_into(q, q, b3.view_mut());
                let _ = i.index_point(0, 0);
                let _ = i.get_index_left_of(0.5, 0.5);
                let _ = i.is_in_x_range(0.5);
                let _ = i.is_in_y_range(0.5);
            });
        }
    });
}
pub fn witness_shared_scalar_2d(i: &Interp2D<OwnedRepr<f64>, OwnedRepr<f64>, OwnedRepr<f64>, Ix2, Bilinear>) {
    std::thread::scope(|sc| { sc.spawn(|| { let _ = i.interp_scalar(0.5, 0.5); }); sc.spawn(|| { let _ = i.interp_scalar(0.5, 0.5); }); });
}
""")
    return "\n".join(lines), n


def send_sync(chk):
    chk.rule('R17.6', "Send + Sync holds for every interpolator x strategy x storage x data dimension (compile-time "
                      "witness crate, type-checked only), and every query method is callable through a shared "
                      "reference from two scoped threads")
    src, n = send_sync_source()
    ok, err = typecheck("w_send_sync", src)
    chk.note('send_sync_assertions', n)
    chk.ob('R17.6', "witness crate with %d Send+Sync assertions and 4 shared-reference thread witnesses type-checks" % n,
           ok, 'witness w_send_sync', 'send-sync-witness', err[-3000:] if not ok else None)
    chk.sample({"witness": "is_send_sync::<Interp1D<OwnedArcRepr<f64>, OwnedArcRepr<f64>, IxDyn, CubicSplineStrategy<OwnedArcRepr<f64>, IxDyn>>>()"})


QDIMS = ["Ix0", "Ix1", "Ix2", "Ix3", "Ix4", "IxDyn"]
_N = {"Ix0": 0, "Ix1": 1, "Ix2": 2, "Ix3": 3, "Ix4": 4, "Ix5": 5, "Ix6": 6}


def _sum_dim(q, rest):
    """ndarray's DimAdd: static + static = static if <= 6 else dynamic; anything + dynamic = dynamic"""
    if q == "IxDyn" or rest == "IxDyn":
        return "IxDyn"
    n = _N[q] + _N[rest]
    return "Ix%d" % n if n <= 6 else "IxDyn"


def _smaller(d, k):
    if d == "IxDyn":
        return "IxDyn"
    return "Ix%d" % (_N[d] - k)


def result_types_source():
    lines = [PRELUDE]
    n = 0
    for d in DIMS1:
        for q in QDIMS:
            out = _sum_dim(q, _smaller(d, 1))
            lines.append("pub fn rt1_%s_%s(i: &Interp1D<OwnedRepr<f64>, OwnedRepr<f64>, %s, Linear>, q: &Array<f64, %s>) {"
                         % (d, q, d, q))
            lines.append("    let _: Array<f64, %s> = i.interp_array(q).unwrap();" % out)
            lines.append("    let _: Array<f64, %s> = i.interp(0.0).unwrap();" % _smaller(d, 1))
            lines.append("}")
            n += 2
    for d in DIMS2:
        for q in QDIMS:
            out = _sum_dim(q, _smaller(d, 2))
            lines.append("pub fn rt2_%s_%s(i: &Interp2D<OwnedRepr<f64>, OwnedRepr<f64>, OwnedRepr<f64>, %s, Bilinear>, q: &Array<f64, %s>) {"
                         % (d, q, d, q))
            lines.append("    let _: Array<f64, %s> = i.interp_array(q, q).unwrap();" % out)
            lines.append("    let _: Array<f64, %s> = i.interp(0.0, 0.0).unwrap();" % _smaller(d, 2))
            lines.append("}")
            n += 2
    lines.append("pub fn rt_scalar(i: &Interp1D<OwnedRepr<f64>, OwnedRepr<f64>, Ix1, Linear>, j: &Interp2D<OwnedRepr<f64>, OwnedRepr<f64>, OwnedRepr<f64>, Ix2, Bilinear>) {")
    lines.append("    let _: f64 = i.interp_scalar(0.0).unwrap(); let _: f64 = j.interp_scalar(0.0, 0.0).unwrap();")
    lines.append("}")
    n += 2
    return "\n".join(lines), n


def result_types(chk):
    src, n = result_types_source()
    ok, err = typecheck("w_result_types", src)
    chk.note('result_type_ascriptions', n)
    chk.ob('R9.6', "witness crate with %d result-type ascriptions (data dim Ix1..Ix6/IxDyn x query dim Ix0..Ix4/IxDyn, 1-D and 2-D) type-checks" % n,
           ok, 'witness w_result_types', 'result-type-witness', err[-3000:] if not ok else None)
    chk.sample({"witness": "let _: Array<f64, IxDyn> = i.interp_array(q)  // data Ix6, query Ix3: 3 + 5 > 6"})
