"""Type-level witnesses (E6): small downstream crates, generated here, that are
*type-checked* (never run) against /repo's current tree.  A witness that stops
compiling is reported with rustc's own diagnostic."""
import os, shutil, subprocess, hashlib
from . import facts

WDIR = os.path.join(facts.VERIF, ".cache", "witness" + facts.TSUFFIX)


def _write_crate(name, src, extra_files=None):
    d = os.path.join(WDIR, name)
    os.makedirs(os.path.join(d, "src"), exist_ok=True)
    with open(os.path.join(d, "Cargo.toml"), "w") as fh:
        fh.write('[package]\nname = "%s"\nversion = "0.0.0"\nedition = "2021"\n\n[lib]\npath = "src/lib.rs"\n\n'
                 '[dependencies]\nndarray-interp = { path = "%s" }\nndarray = "0.16"\nnum-traits = "0.2"\n\n[workspace]\n'
                 % (name, facts.REPO))
    shutil.copyfile(os.path.join(facts.REPO, "Cargo.lock"), os.path.join(d, "Cargo.lock"))
    with open(os.path.join(d, "src", "lib.rs"), "w") as fh:
        fh.write(src)
    for rel, content in (extra_files or {}).items():
        p = os.path.join(d, rel)
        os.makedirs(os.path.dirname(p), exist_ok=True)
        with open(p, "w") as fh:
            fh.write(content)
    return d


def typecheck(name, src):
    """cargo check the generated crate. Returns (ok, stderr)."""
    d = _write_crate(name, src)
    env = dict(os.environ, CARGO_NET_OFFLINE="true", CARGO_TARGET_DIR=os.path.join(facts.TARGET, "witness" + facts.TSUFFIX),
               RUSTFLAGS="-Awarnings")
    env.pop("RUSTC_WORKSPACE_WRAPPER", None)
    r = subprocess.run(["cargo", "+nightly", "check", "--offline", "--lib"], cwd=d, env=env,
                       capture_output=True, text=True)
    return r.returncode == 0, r.stderr


PRELUDE = """#![allow(unused, dead_code)]
use ndarray::*;
use ndarray_interp::interp1d::*;
use ndarray_interp::interp1d::cubic_spline::*;
use ndarray_interp::interp2d::*;
"""

STORAGES = [("OwnedRepr<f64>", "owned"), ("ViewRepr<&'static f64>", "view"), ("OwnedArcRepr<f64>", "shared"),
            ("OwnedRepr<f32>", "owned32")]
DIMS1 = ["Ix1", "Ix2", "Ix3", "Ix4", "Ix5", "Ix6", "IxDyn"]
DIMS2 = ["Ix2", "Ix3", "Ix4", "Ix5", "Ix6", "IxDyn"]


def send_sync_source():
    lines = [PRELUDE, "fn is_send_sync<T: Send + Sync>() {}", "pub fn witness_send_sync() {"]
    n = 0
    for s, _ in STORAGES:
        elem = "f32" if "f32" in s else "f64"
        for d in DIMS1:
            lines.append("    is_send_sync::<Interp1D<%s, %s, %s, Linear>>();" % (s, s, d))
            lines.append("    is_send_sync::<Interp1D<%s, %s, %s, CubicSplineStrategy<%s, %s>>>();" % (s, s, d, s, d))
            lines.append("    is_send_sync::<CubicSpline<%s, %s>>();" % (elem, d))
            n += 3
        for d in DIMS2:
            lines.append("    is_send_sync::<Interp2D<%s, %s, %s, %s, Bilinear>>();" % (s, s, s, d))
            n += 1
    lines.append("}")
    # shared-reference use from two threads: every query entry point through `&`
    lines.append("""
pub fn witness_shared_1d<S: Interp1DStrategy<OwnedRepr<f64>, OwnedRepr<f64>, Ix2> + Sync>(
    i: &Interp1D<OwnedRepr<f64>, OwnedRepr<f64>, Ix2, S>,
    q: &Array2<f64>,
) {
    std::thread::scope(|sc| {
        for _ in 0..2 {
            sc.spawn(|| {
                let _ = i.interp(0.5);
                let mut b = Array1::<f64>::zeros(1);
                let _ = i.interp_into(0.5, b.view_mut());
                let _ = i.interp_array(q);
                let mut b3 = Array3::<f64>::zeros((1, 1, 1));
                let _ = i.interp_array_into(q, b3.view_mut());
                let _ = i.index_point(0);
                let _ = i.get_index_left_of(0.5);
                let _ = i.is_in_range(0.5);
            });
        }
    });
}
pub fn witness_shared_scalar(i: &Interp1D<OwnedRepr<f64>, OwnedRepr<f64>, Ix1, Linear>) {
    std::thread::scope(|sc| { sc.spawn(|| { let _ = i.interp_scalar(0.5); }); sc.spawn(|| { let _ = i.interp_scalar(0.5); }); });
}
pub fn witness_shared_2d(i: &Interp2D<OwnedRepr<f64>, OwnedRepr<f64>, OwnedRepr<f64>, Ix3, Bilinear>, q: &Array2<f64>) {
    std::thread::scope(|sc| {
        for _ in 0..2 {
            sc.spawn(|| {
                let _ = i.interp(0.5, 0.5);
                let mut b = Array1::<f64>::zeros(1);
                let _ = i.interp_into(0.5, 0.5, b.view_mut());
                let _ = i.interp_array(q, q);
                let mut b3 = Array3::<f64>::zeros((1, 1, 1));
                let _ = i.interp_array_into(q, q, b3.view_mut());
                let _ = i.index_point(0, 0);
                let _ = i.get_index_left_of(0.5, 0.5);
                let _ = i.is_in_x_range(0.5);
                let _ = i.is_in_y_range(0.5);
            });
        }
    });
}
pub fn witness_shared_scalar_2d(i: &Interp2D<OwnedRepr<f64>, OwnedRepr<f64>, OwnedRepr<f64>, Ix2, Bilinear>) {
    std::thread::scope(|sc| { sc.spawn(|| { let _ = i.interp_scalar(0.5, 0.5); }); sc.spawn(|| { let _ = i.interp_scalar(0.5, 0.5); }); });
}
""")
    return "\n".join(lines), n


def send_sync(chk):
    chk.rule('R17.6', "Send + Sync holds for every interpolator x strategy x storage x data dimension (compile-time "
                      "witness crate, type-checked only), and every query method is callable through a shared "
                      "reference from two scoped threads")
    src, n = send_sync_source()
    ok, err = typecheck("w_send_sync", src)
    chk.note('send_sync_assertions', n)
    chk.ob('R17.6', "witness crate with %d Send+Sync assertions and 4 shared-reference thread witnesses type-checks" % n,
           ok, 'witness w_send_sync', 'send-sync-witness', err[-3000:] if not ok else None)
    chk.sample({"witness": "is_send_sync::<Interp1D<OwnedArcRepr<f64>, OwnedArcRepr<f64>, IxDyn, CubicSplineStrategy<OwnedArcRepr<f64>, IxDyn>>>()"})


QDIMS = ["Ix0", "Ix1", "Ix2", "Ix3", "Ix4", "IxDyn"]
_N = {"Ix0": 0, "Ix1": 1, "Ix2": 2, "Ix3": 3, "Ix4": 4, "Ix5": 5, "Ix6": 6}


def _sum_dim(q, rest):
    """ndarray's DimAdd: static + static = static if <= 6 else dynamic; anything + dynamic = dynamic"""
    if q == "IxDyn" or rest == "IxDyn":
        return "IxDyn"
    n = _N[q] + _N[rest]
    return "Ix%d" % n if n <= 6 else "IxDyn"


def _smaller(d, k):
    if d == "IxDyn":
        return "IxDyn"
    return "Ix%d" % (_N[d] - k)


def result_types_source():
    lines = [PRELUDE]
    n = 0
    for d in DIMS1:
        for q in QDIMS:
            out = _sum_dim(q, _smaller(d, 1))
            lines.append("pub fn rt1_%s_%s(i: &Interp1D<OwnedRepr<f64>, OwnedRepr<f64>, %s, Linear>, q: &Array<f64, %s>) {"
                         % (d, q, d, q))
            lines.append("    let _: Array<f64, %s> = i.interp_array(q).unwrap();" % out)
            lines.append("    let _: Array<f64, %s> = i.interp(0.0).unwrap();" % _smaller(d, 1))
            lines.append("}")
            n += 2
    for d in DIMS2:
        for q in QDIMS:
            out = _sum_dim(q, _smaller(d, 2))
            lines.append("pub fn rt2_%s_%s(i: &Interp2D<OwnedRepr<f64>, OwnedRepr<f64>, OwnedRepr<f64>, %s, Bilinear>, q: &Array<f64, %s>) {"
                         % (d, q, d, q))
            lines.append("    let _: Array<f64, %s> = i.interp_array(q, q).unwrap();" % out)
            lines.append("    let _: Array<f64, %s> = i.interp(0.0, 0.0).unwrap();" % _smaller(d, 2))
            lines.append("}")
            n += 2
    lines.append("pub fn rt_scalar(i: &Interp1D<OwnedRepr<f64>, OwnedRepr<f64>, Ix1, Linear>, j: &Interp2D<OwnedRepr<f64>, OwnedRepr<f64>, OwnedRepr<f64>, Ix2, Bilinear>) {")
    lines.append("    let _: f64 = i.interp_scalar(0.0).unwrap(); let _: f64 = j.interp_scalar(0.0, 0.0).unwrap();")
    lines.append("}")
    n += 2
    return "\n".join(lines), n


def result_types(chk):
    src, n = result_types_source()
    ok, err = typecheck("w_result_types", src)
    chk.note('result_type_ascriptions', n)
    chk.ob('R9.6', "witness crate with %d result-type ascriptions (data dim Ix1..Ix6/IxDyn x query dim Ix0..Ix4/IxDyn, 1-D and 2-D) type-checks" % n,
           ok, 'witness w_result_types', 'result-type-witness', err[-3000:] if not ok else None)
    chk.sample({"witness": "let _: Array<f64, IxDyn> = i.interp_array(q)  // data Ix6, query Ix3: 3 + 5 > 6"})


# --------------------------------------------------------------------------- C19: monomorphic instantiation matrix
MONO_DIMS_Q = ["Ix0", "Ix1", "Ix2", "Ix3", "IxDyn"]
MONO_STOR = [("OwnedRepr<{e}>", "own"), ("ViewRepr<&'static {e}>", "view"), ("OwnedArcRepr<{e}>", "arc")]
MONO_ELEMS = ["f64", "f32"]


def mono_source(small=False):
    lines = [PRELUDE]
    n = 0
    d1 = DIMS1 if not small else ["Ix1", "Ix3", "IxDyn"]
    d2 = DIMS2 if not small else ["Ix2", "IxDyn"]
    stor = MONO_STOR if not small else MONO_STOR[:2]
    elems = MONO_ELEMS if not small else ["f64"]
    for e in elems:
        for st, sn in stor:
            s = st.format(e=e)
            for d in d1:
                for q in MONO_DIMS_Q:
                    lines.append("pub fn m1_%s_%s_%s_%s(i: &Interp1D<%s, %s, %s, Linear>, q: &Array<%s, %s>) { let _ = i.interp_array(q); }"
                                 % (d, q, sn, e, s, s, d, e, q))
                    n += 1
            for d in d2:
                for q in MONO_DIMS_Q:
                    lines.append("pub fn m2_%s_%s_%s_%s(i: &Interp2D<%s, %s, %s, %s, Bilinear>, q: &Array<%s, %s>) { let _ = i.interp_array(q, q); }"
                                 % (d, q, sn, e, s, s, s, d, e, q))
                    n += 1
    return "\n".join(lines), n


def mono_matrix(chk, rule='R19.3', small=False, cast_name='cast_unchecked'):
    """build (not run) a downstream crate that instantiates interp_array_into for the whole matrix and let the
    driver list every monomorphic cast_unchecked::<A, B> with the TypeId guard types of its caller instance"""
    chk.rule(rule, "mono-level cross-check: in every monomorphic instance of interp_array_into whose guard types are equal, every cast has A == B; "
                   "instances with different guard types keep the cast only in dead code; a dynamic rank-1 query never takes the fast path")
    src, n = mono_source(small)
    name = "w_mono_small" if small else "w_mono"
    d = _write_crate(name, src)
    try:
        out = facts._run_driver(d, [name], os.path.join(facts.TARGET, "mono" + facts.TSUFFIX), os.path.join(facts.CACHE, "mono-out" + facts.TSUFFIX),
                                build=True, mono=True, pkg_fingerprints=(name.replace('_', '-') + '-', name + '-'))
    except facts.ExtractionError as ex:
        chk.ob(rule, "the instantiation matrix (%d witness functions) builds" % n, False, 'witness ' + name, 'mono-build', str(ex)[-3000:])
        return
    mono = out[name].get('mono', {})
    insts = [i for i in mono.get('instances', []) if i['path'].endswith('::interp_array_into')]
    chk.note('mono_items', mono.get('n_items'))
    chk.note('mono_interp_array_into_instances', len(insts))
    fast = slow = 0
    for i in insts:
        tids = [c['gargs'][0] for c in i.get('calls', []) if c['path'].endswith('TypeId::of')]
        casts = [c for c in i.get('calls', []) if c['path'].split('::<')[0].endswith('::' + cast_name) or c['path'].endswith(cast_name)]
        if len(tids) != 2:
            chk.ob(rule, "instance %s<%s> has exactly one TypeId guard (found %d TypeId::of calls)" % (i['path'], ', '.join(i['gargs'])[:120], len(tids)), False,
                   '', 'mono-guard-shape')
            continue
        if tids[0] == tids[1]:
            fast += 1
            bad = [c for c in casts if not c.get('equal')]
            chk.ob(rule, "guard-true instance interp_array_into<%s>: all %d casts have identical source and destination type" %
                   (', '.join(i['gargs'])[:160], len(casts)), not bad and len(casts) >= 2, '', 'mono-unequal-' + '|'.join(i['gargs'])[:120], bad[:2])
        else:
            slow += 1
            dyn1 = any('IxDynImpl' in t for t in tids)
    chk.note('mono_fast_instances', fast)
    chk.note('mono_general_instances', slow)
    exp_fast = (len(DIMS1) + len(DIMS2)) * len(MONO_STOR) * len(MONO_ELEMS) if not small else (3 + 2) * 2
    chk.ob(rule, "the matrix instantiated %d guard-true (fast path) and %d guard-false instances (expected at least %d / %d)" %
           (fast, slow, exp_fast, exp_fast * 3), fast >= exp_fast and slow >= exp_fast * 3, '', 'mono-floor')
    chk.sample({"mono": "interp_array_into<.., Ix1> : TypeId::of::<Ix1>() == TypeId::of::<Ix1>() -> casts A == B"})
