"""Spline build-side analysis: extraction of the tridiagonal system from solve_for_k for every boundary scenario and
the form-free / scale-free obligations on its rows (shared by C02, C03, C16, C10, C15, C08)."""
from ..absint import *
from ..smodel import *
from ..poly import Rat, Poly, reindex, diff
from ..thir import Lib

SFK = 'CubicSpline::solve_for_k'
THOMAS = 'CubicSpline::thomas'
CALC = 'CubicSpline::calc_coefficients'
IB = 'InternalBoundary'
SB = 'SingleBoundary'
BC = 'BoundaryCondition'
RB = 'RowBoundary'
A = Rat.atom
N = A('n')


def X(j):
    return ax_atom('x', j if isinstance(j, Rat) else Rat.const(j))


def Y(j):
    return data_atom('y', [j if isinstance(j, Rat) else Rat.const(j)])


def single(kind, side):
    if kind in ('FirstDeriv', 'SecondDeriv'):
        return Enum(SB, kind, {'0': Num(A('v_' + side))})
    return Enum(SB, kind)


class BSpec:
    """a boundary of the solver's private boundary type, described through the public API that produces it"""
    def __init__(self, kind, *a):
        self.kind, self.a = kind, a

    def __repr__(self):
        return "BSpec(%s %s)" % (self.kind, self.a)


def mixed(left, right):
    """what `RowBoundary::Mixed{left, right}.into()` gives (the per-lane route)"""
    return BSpec('mixed', left, right)


def internal(kind):
    """what calc_coefficients hands to the solver for `BoundaryCondition::<kind>` (the whole-set route)"""
    return BSpec('top', kind)


def from_row_boundary_impl(lib):
    """the (private) conversion RowBoundary -> the solver's boundary type, found by its signature"""
    import re
    c = []
    for d, b in lib.bodies.items():
        nd = strip_generics(d)
        if re.match(r'^<\w+ as std::convert::From>::from$', nd) and b.get('params'):
            p0 = b['params'][0]
            ty = p0.get('ty', '') if isinstance(p0, dict) else str(p0)
            if ty.startswith(RB + '<') or ty == RB:
                c.append(d)
    return c[0] if len(c) == 1 else None


def resolve_boundary(lib, spec):
    cache = lib.__dict__.setdefault('_boundary_cache', {})
    key = (spec.kind,) + tuple(spec.a)
    if key not in cache:
        if spec.kind == 'mixed':
            l, r = spec.a
            imp = from_row_boundary_impl(lib)
            row = Enum(RB, 'Mixed', {'left': single(l, 'l'), 'right': single(r, 'r')})
            if imp is not None:
                cache[key] = deref_all(Interp(lib, KModel()).call_def(imp, [row]))
            else:
                cache[key] = Enum(IB, 'Mixed', {'left': single(l, 'l'), 'right': single(r, 'r')})
        else:
            m, out, ex, _ = run_calc(lib, spec.a[0])
            if ex is None and len(m.solve_calls) == 1:
                cache[key] = deref_all(m.solve_calls[0]['args'][3])
            else:
                cache[key] = Enum(IB, spec.a[0])
    import copy
    return copy.deepcopy(cache[key])


def entry_args(lib, path, k, x, data, boundary):
    """the arguments of the per-system assembly / the per-lane dispatcher as its signature wants them (any parameter order; the axis
    possibly held by a private one-field struct)"""
    from ..roles import entry_param_roles
    b = lib.body(path)
    ps = [p_.get('ty', '') if isinstance(p_, dict) else str(p_) for p_ in b['params']]
    proles = entry_param_roles(lib, ps)
    canon = ['k', 'x', 'data', 'boundary']
    given = {'k': k, 'x': x, 'data': data, 'boundary': boundary}
    if proles is None:
        proles, ps = canon, ps if len(ps) == 4 else [''] * 4
    args = []
    for ty, pr in zip(ps, proles):
        if isinstance(pr, tuple):
            _, fld, adt, var = pr
            v = Enum(adt, var, {fld: Ref(ValPlace(x))})
        else:
            v = given[pr]
        # the canonical call shape of the tree passes the axis by reference, and the data by reference to the assembly
        byref = ty.startswith('&') if ty else (pr == 'x')
        args.append(Ref(ValPlace(v)) if byref and not isinstance(v, Ref) else v)
    return args


def canon_entry_call(lib, path, args):
    """[k, x, data, boundary] of a recorded call of the assembly / dispatcher, whatever the order of its parameters"""
    from ..roles import entry_param_roles
    b = lib.body(path)
    args = [deref_all(a) for a in args]
    if b is None:
        return args
    ps = [p_.get('ty', '') if isinstance(p_, dict) else str(p_) for p_ in b['params']]
    proles = entry_param_roles(lib, ps)
    if proles is None or len(proles) != len(args):
        return args
    out = {}
    for pr, a in zip(proles, args):
        if isinstance(pr, tuple):
            out['x'] = deref_all(a.fields[pr[1]]) if isinstance(a, Enum) and pr[1] in a.fields else a
        else:
            out[pr] = a
    return [out['k'], out['x'], out['data'], out['boundary']]


def run_solve(lib, boundary, n=None, **scn):
    infer_thomas_labels(lib)
    b = lib.body(SFK)
    if isinstance(boundary, BSpec):
        try:
            boundary = resolve_boundary(lib, boundary)
        except (Unsupported, Diverge) as ex:
            return SModel({'n': n}), None, ex
    scn = dict(scn)
    scn['n'] = n
    m = SModel(scn)
    it = Interp(lib, m)
    x, data = cubic_objects()
    k = m.new_arr2(m.n, 'k')
    m.k = k
    try:
        out = deref_all(it.call_def(b['def'], entry_args(lib, SFK, k, x, data, boundary)))
        return m, out, None
    except (Unsupported, Diverge) as ex:
        return m, None, ex


class System:
    """the tridiagonal system handed to the solver: row i is  low[i] k[i-1] + mid[i] k[i] + up[i] k[i+1] = rhs[i]"""

    def __init__(self, call):
        self.c = call

    def arr(self, nm):
        return self.c[nm]

    def at(self, nm, idx):
        """entry at a specific index (Rat); falls back to the generic interior entry re-indexed"""
        a = self.c[nm]
        t = a.d['t']
        idx = idx if isinstance(idx, Rat) else Rat.const(idx)
        real = idx + a.d['lo']
        k = idx_name(real)
        if k in t.store:
            return t.store[k][1]
        for g in reversed(t.generic):
            if isinstance(g['value'], Rat):
                return reindex(g['value'], {g['var']: real})
        return Rat.const(0)

    def specific(self, nm, idx):
        a = self.c[nm]
        t = a.d['t']
        idx = idx if isinstance(idx, Rat) else Rat.const(idx)
        k = idx_name(idx + a.d['lo'])
        return t.store[k][1] if k in t.store else None

    def generic(self, nm, var='i'):
        a = self.c[nm]
        t = a.d['t']
        for g in reversed(t.generic):
            if isinstance(g['value'], Rat):
                return reindex(g['value'], {g['var']: A(var)}), g['lo'], g['hi']
        return None, None, None

    def length(self, nm):
        a = self.c[nm]
        return a.d['hi'] - a.d['lo']


# --------------------------------------------------------------------------- families
C0, C1, C2, C3 = A('c0'), A('c1'), A('c2'), A('c3')


def cubic(t):
    return C0 + C1 * t + C2 * t * t + C3 * t * t * t


def dcubic(t):
    return C1 + 2 * C2 * t + 3 * C3 * t * t


def d2cubic(t):
    return 2 * C2 + 6 * C3 * t


def subs_all(r, mapping):
    return r.subs({str(k) if not isinstance(k, str) else k: v for k, v in mapping.items()})


def stencil_residual(L, M, U, R, nodes, knames):
    """F = L k_a + M k_b + U k_c - R  as a Rat in atoms k_a.. (given names) and y / x atoms"""
    ka, kb, kc = [A(n_) for n_ in knames]
    return L * ka + M * kb + U * kc - R


def check_stencil(chk, rule, what, where, key, L, M, U, R, idx):
    """interior (C2) stencil at node idx with neighbours idx-1, idx+1:
    vanishes on cubics and on the truncated power (x - x_idx)_+^3; is not the zero functional."""
    im, i0, ip = idx - 1, idx, idx + 1
    xs = {str(X(j)): X(j) for j in (im, i0, ip)}
    # cubic family
    sub = {}
    for j in (im, i0, ip):
        sub[str(Y(j))] = cubic(X(j))
    F = (L * A('k_m') + M * A('k_0') + U * A('k_p') - R)
    Fc = F.subs(sub).subs({'k_m': dcubic(X(im)), 'k_0': dcubic(X(i0)), 'k_p': dcubic(X(ip))})
    ok1 = chk.ob(rule, "%s: the row functional vanishes for y = p(x), k = p'(x), p any cubic" % what, Fc.is_zero(), where, key + '-cubics',
                 str(Fc)[:300])
    h = X(ip) - X(i0)
    Ft = F.subs({str(Y(im)): Rat.const(0), str(Y(i0)): Rat.const(0), str(Y(ip)): h * h * h}).subs(
        {'k_m': Rat.const(0), 'k_0': Rat.const(0), 'k_p': 3 * h * h})
    ok2 = chk.ob(rule, "%s: the row functional vanishes on the truncated power (x - x_i)_+^3 (a C2 spline that is not a cubic)" % what,
                 Ft.is_zero(), where, key + '-truncated-power', str(Ft)[:300])
    ok3 = chk.ob(rule, "%s: the row is not the zero functional (its diagonal entry is a non-zero polynomial)" % what, not M.is_zero(), where, key + '-nonzero')
    return ok1 and ok2 and ok3


def left_row_check(chk, rule, kind, sysm, where, nval):
    """row 0:  mid[0] k0 + up[0] k1 = rhs[0]"""
    M0, U0, R0 = sysm.at('mid', 0), sysm.at('up', 0), sysm.at('rhs', 0)
    F = M0 * A('k0') + U0 * A('k1') - R0
    key = 'left-%s-n%s' % (kind, nval)
    what = "left %s row (n %s)" % (kind, nval)
    return end_row_check(chk, rule, kind, F, M0, what, where, key, nodes=(Rat.const(0), Rat.const(1), Rat.const(2)), v=A('v_l'), side='left')


def right_row_check(chk, rule, kind, sysm, where, nval, n):
    L, M, R = sysm.at('low', n - 1), sysm.at('mid', n - 1), sysm.at('rhs', n - 1)
    # mirror: k0 <-> k[n-1], k1 <-> k[n-2]
    F = M * A('k0') + L * A('k1') - R
    key = 'right-%s-n%s' % (kind, nval)
    what = "right %s row (n %s)" % (kind, nval)
    return end_row_check(chk, rule, kind, F, M, what, where, key, nodes=(n - 1, n - 2, n - 3), v=A('v_r'), side='right')


def end_row_check(chk, rule, kind, F, diag, what, where, key, nodes, v, side):
    """F(k0, k1; y at nodes[0..2]; v): k0 belongs to the end node nodes[0], k1 to its neighbour nodes[1]."""
    e0, e1, e2 = nodes
    ok = True
    vname = str(v)
    if kind in ('NotAKnot',):
        sub = {str(Y(j)): cubic(X(j)) for j in (e0, e1, e2)}
        Fc = F.subs(sub).subs({'k0': dcubic(X(e0)), 'k1': dcubic(X(e1))})
        ok &= chk.ob(rule, "%s vanishes whenever the two end intervals carry ONE cubic (y = p(x), k = p'(x))" % what, Fc.is_zero(), where,
                     key + '-cubics', str(Fc)[:400])
        # witness outside the admissible family: truncated power with its knot at the first interior node
        h = X(e2) - X(e1)
        Ft = F.subs({str(Y(e0)): Rat.const(0), str(Y(e1)): Rat.const(0), str(Y(e2)): h * h * h}).subs({'k0': Rat.const(0), 'k1': Rat.const(0)})
        ok &= chk.ob(rule, "%s does not vanish on a spline with a third-derivative jump at the first interior node" % what, not Ft.is_zero(),
                     where, key + '-witness')
        ok &= chk.ob(rule, "%s does not involve a boundary value" % what, vname not in F.atoms(), where, key + '-no-v')
    elif kind in ('FirstDeriv', 'Clamped'):
        val = v if kind == 'FirstDeriv' else Rat.const(0)
        Fa = F.subs({'k0': val})
        ok &= chk.ob(rule, "%s is satisfied exactly by k_end = %s, whatever the data and the neighbouring slope" % (what, 'v' if kind == 'FirstDeriv' else '0'),
                     Fa.is_zero(), where, key + '-admissible', str(Fa)[:300])
        Fw = F.subs({'k0': val + 1})
        ok &= chk.ob(rule, "%s rejects k_end = %s + 1 (non-zero functional)" % (what, 'v' if kind == 'FirstDeriv' else '0'), not Fw.is_zero(), where, key + '-witness')
    elif kind in ('SecondDeriv', 'Natural'):
        sub = {str(Y(j)): cubic(X(j)) for j in (e0, e1, e2)}
        Fc = F.subs(sub).subs({'k0': dcubic(X(e0)), 'k1': dcubic(X(e1))})
        if kind == 'SecondDeriv':
            Fa = Fc.subs({vname: d2cubic(X(e0))})
            ok &= chk.ob(rule, "%s vanishes for the cubic p on the end interval when v = p''(x_end)" % what, Fa.is_zero(), where, key + '-admissible', str(Fa)[:300])
            Fw = Fc.subs({vname: d2cubic(X(e0)) + 1})
            ok &= chk.ob(rule, "%s rejects v = p''(x_end) + 1" % what, not Fw.is_zero(), where, key + '-witness')
        else:
            # cubics with p''(x_end) = 0:  c2 = -3 c3 x_end
            Fa = Fc.subs({'c2': -3 * C3 * X(e0)})
            ok &= chk.ob(rule, "%s vanishes for every cubic with p''(x_end) = 0" % what, Fa.is_zero(), where, key + '-admissible', str(Fa)[:300])
            ok &= chk.ob(rule, "%s rejects cubics with p''(x_end) != 0" % what, not Fc.is_zero(), where, key + '-witness')
        ok &= chk.ob(rule, "%s does not depend on the second interval's data (a one-interval condition)" % what, str(Y(e2)) not in F.atoms(), where, key + '-local')
    else:
        ok &= chk.ob(rule, "unknown boundary kind %s" % kind, False, where, key)
    ok &= chk.ob(rule, "%s has a non-zero diagonal entry" % what, not diag.is_zero(), where, key + '-diag')
    return ok


KINDS = ('NotAKnot', 'Natural', 'Clamped', 'FirstDeriv', 'SecondDeriv')


def general_arm(chk, lib, rule_interior, rule_boundary, n=None, only_interior=False):
    """all 25 (left, right) Mixed combinations on the general arm; returns number of systems analysed"""
    nval = 'symbolic (>= 4)' if n is None else str(n)
    nn = N if n is None else Rat.const(n)
    count = 0
    done_interior = False
    for lk in KINDS:
        for rk in KINDS:
            if n == 3 and lk == 'NotAKnot' and rk == 'NotAKnot':
                continue
            m, out, ex = run_solve(lib, mixed(lk, rk), n)
            key = 'mixed-%s-%s-n%s' % (lk, rk, nval)
            where = lib.body(SFK)['span']
            if ex is not None:
                chk.ob(rule_boundary, "solve_for_k with Mixed{%s, %s}, n %s is within the reviewed lane-wise surface: %s" % (lk, rk, nval, ex), False,
                       ex.where, key + '-unrecognised')
                continue
            if not chk.ob(rule_boundary, "Mixed{%s, %s}, n %s: returns Ok after exactly one tridiagonal solve" % (lk, rk, nval),
                          isinstance(out, Enum) and out.variant == 'Ok' and len(m.thomas_calls) == 1, where, key + '-one-solve'):
                continue
            count += 1
            sysm = System(m.thomas_calls[0])
            chk.ob(rule_boundary, "Mixed{%s, %s}, n %s: the solver writes into the caller's slope array k" % (lk, rk, nval),
                   m.thomas_calls[0]['k'] is m.k, where, key + '-k')
            if not done_interior and not only_interior:
                done_interior = True
                interior_checks(chk, rule_interior, m, sysm, where, nval, nn)
            if only_interior:
                interior_checks(chk, rule_interior, m, sysm, where, nval + ' ' + lk + '/' + rk, nn)
                continue
            left_row_check(chk, rule_boundary, lk, sysm, where, nval)
            right_row_check(chk, rule_boundary, rk, sysm, where, nval, nn)
    return count


def interior_checks(chk, rule, m, sysm, where, nval, nn):
    L, lo, hi = sysm.generic('low')
    M, lo2, hi2 = sysm.generic('mid')
    U, lo3, hi3 = sysm.generic('up')
    R, lo4, hi4 = sysm.generic('rhs')
    ok = chk.ob(rule, "interior rows: all four arrays have a generic interior entry (n %s)" % nval, all(z is not None for z in (L, M, U, R)), where, 'interior-generic-n%s' % nval)
    if not ok:
        return
    chk.ob(rule, "interior rows cover exactly the nodes 1 .. n-2 in all four arrays (slice 1..-1 / windows(3) / loop 1..len-1 aligned)",
           all(a == Rat.const(1) for a in (lo, lo2, lo3, lo4)) and all(b == nn - 2 for b in (hi, hi2, hi3, hi4)), where, 'interior-range-n%s' % nval,
           [str(z) for z in (lo, hi, lo2, hi2, lo3, hi3, lo4, hi4)])
    wa = getattr(m, 'window_alignment', None)
    chk.ob(rule, "the zipped slices and windows(3) have the same length (%s)" % ((wa and [str(wa['n_slice']), str(wa['n_windows'])]),),
           wa is not None and wa['n_slice'] == wa['n_windows'] and wa['window'] == 3, where, 'interior-zip-n%s' % nval)
    check_stencil(chk, rule, "interior row i (n %s)" % nval, where, 'interior-n%s' % nval, L, M, U, R, A('i'))
    chk.sample({"interior row": "low=%s mid=%s up=%s" % (L, M, U)})


# --------------------------------------------------------------------------- Thomas algorithm (inductive steps)
class TModel(SModel):
    """thomas(k, up, mid, low, rhs) on fully symbolic inputs; each loop is ONE inductive step.
    Loop-carried row temporaries (`x.into_owned()` later zipped through `view_mut()`) are havocked at the loop head."""

    def __init__(self):
        super().__init__({'n': None, 'summarise_thomas': False})
        self.loop_reports = []

    def call(self, name, cal, args, e, frame):
        last = name.split('::')[-1]
        a0 = deref_all(args[0]) if args else None
        if name == 'std::ops::SubAssign::sub_assign':
            ref = args[0]
            if isinstance(ref, Ref):
                cur = deref_all(ref.place.get())
                v = deref_all(args[1])
                ref.place.set(num_binop('-', cur, v, e))
                return Unit()
        if isinstance(a0, Obj) and a0.kind == 'lanes' and last in ('into_owned', 'to_owned'):
            return Obj('lanesvar', cell={'r': a0.d['r']})
        if isinstance(a0, Obj) and a0.kind == 'lanesvar' and last in ('view_mut', 'view'):
            return a0
        return super().call(name, cal, args, e, frame)

    def lane_arg(self, part, e):
        if isinstance(part, Obj) and part.kind == 'lanesvar':
            cell = part.d['cell']

            def setter(v):
                cell['r'] = deref_all(v).r
            return Ref(FnPlace(lambda: Num(cell['r']), setter, 'carried'), mut=True)
        return super().lane_arg(part, e)

    def for_loop(self, iterable, pat, body, frame, e):
        return self.loop_call(frame, lambda: SModel.for_loop(self, iterable, pat, body, frame, e))

    def loop_call(self, frame, thunk):
        carried = {}
        scalars = {}
        f = frame
        while f is not None:
            for k, v in f.vars.items():
                if isinstance(v, Obj) and v.kind == 'lanesvar' and k not in carried:
                    carried[k] = v
                # a `let mut` scalar alive across the loop: possibly carried from one row to the next
                if isinstance(v, Num) and k in self.interp.mut_vars and k not in scalars and v.const() is None:
                    scalars[k] = f
            f = f.parent
        pre = {k: v.d['cell']['r'] for k, v in carried.items()}
        for k, v in carried.items():
            v.d['cell']['r'] = Rat.atom('carry:' + k.split('#')[0])
        spre = {k: f_.vars[k].r for k, f_ in scalars.items()}
        for k, f_ in scalars.items():
            f_.vars[k] = Num(Rat.atom('carry:' + k.split('#')[0]))
        gen_before = {id(t): len(t.generic) for t in self.arrays}
        r = thunk()
        lp = self.loops[-1]
        post = {k: v.d['cell']['r'] for k, v in carried.items()}
        changed = {k for k in carried if str(post[k]) != 'carry:' + k.split('#')[0]}
        rep = dict(lp)
        rep['carried'] = {k.split('#')[0]: (pre[k], post[k]) for k in changed}
        rep['generic'] = {}
        written = []
        for t in self.arrays:
            if len(t.generic) > gen_before.get(id(t), 0):
                g = t.generic[-1]
                rep['generic'][t.sym or t.name] = (g.get('idx'), g['value'])
                written.append((t, g))
        # carried scalars: c starts as T[lo-1] and the body leaves the value it wrote to T[j] in it: at the head of row j it is T'[j-1]
        # (rows below lo are not written by the loop) - the same thing an index-based sweep reads as T[j-1]
        var = A(lp['var'])
        for k, f_ in scalars.items():
            nm = 'carry:' + k.split('#')[0]
            now = f_.vars[k]
            if isinstance(now, Num) and str(now.r) == nm:
                f_.vars[k] = Num(spre[k])          # untouched by the loop
                continue
            src = None
            for t, g in written:
                if isinstance(now, Num) and isinstance(g['value'], Rat) and g['value'] == now.r and str(g.get('idx')) == lp['var'] and not lp['rev']:
                    first = Rat.atom("%s[%s]" % (t.sym or t.name, idx_name(lp['lo'] - 1)))
                    if spre[k] == first:
                        src = t
            if src is None:
                continue                            # stays an unknown `carry:` atom: the formulas of the sweep will not be recognised
            prev = Rat.atom("%s[%s]" % (src.sym or src.name, idx_name(var - 1)))
            for t, g in written:
                if isinstance(g['value'], Rat):
                    g['value'] = reindex_atom(g['value'], nm, prev)
                    rep['generic'][t.sym or t.name] = (g.get('idx'), g['value'])
            rep['carried'] = {c_: (a_, reindex_atom(b_, nm, prev) if isinstance(b_, Rat) else b_) for c_, (a_, b_) in rep['carried'].items()}
            f_.vars[k] = Num(Rat.atom("%s'[%s]" % (src.sym or src.name, idx_name(lp['hi']))))
            rep.setdefault('carried_scalars', {})[k.split('#')[0]] = str(prev)
        for t, g in written:
            if t.sym is not None:
                t.sym = t.sym + "'"      # contents after this loop
                t.generic = []
        self.loop_reports.append(rep)
        return r


def reindex_atom(r, atom, by):
    """the rational function `r` with the atom `atom` replaced by the rational function `by`"""
    return r.subs({atom: by})


def solver_args(lib, m, names):
    """arguments for the tridiagonal solver as its signature wants them: k, the three coefficient arrays (named `names` in the order
    they appear, one by one or as fields of a private struct), rhs.  Returns (args, k, {name: arr1}, rhs)"""
    b = lib.body(THOMAS)
    adts = {a['path']: a for a in lib.f.get('adts', [])}
    ps = [p_.get('ty', '') if isinstance(p_, dict) else str(p_) for p_ in b['params']]
    k = m.new_arr2(m.n, 'k', sym='k')
    rhs = m.new_arr2(m.n, 'rhs', sym='rhs')
    arrs = {}
    names = list(names)

    def fresh1():
        nm = names[len(arrs)]
        a = m.new_arr1(m.n, nm)
        a.d['t'].sym = nm
        arrs[nm] = a
        return a
    from ..roles import solver_param_roles
    proles = solver_param_roles(lib, ps) or (['k'] + ['coef'] * (len(ps) - 2) + ['rhs'])
    args = []
    for ty, pr in zip(ps, proles):
        t = strip_generics(ty.lstrip('&').replace('mut ', '', 1).strip())
        if pr == 'k':
            args.append(Ref(ValPlace(k)) if ty.startswith('&') else k)
        elif pr == 'rhs':
            args.append(Ref(ValPlace(rhs)) if ty.startswith('&') else rhs)
        elif t in adts and adts[t].get('variants'):
            fields = {}
            for f_ in adts[t]['variants'][0]['fields']:
                fields[f_['name']] = fresh1() if 'ndarray::Dim<[usize; 1]>' in f_['ty'] else Opaque('field ' + f_['name'])
            v = Enum(t, adts[t]['variants'][0]['name'], fields)
            args.append(Ref(ValPlace(v)) if ty.startswith('&') else v)
        else:
            a = fresh1()
            args.append(Ref(ValPlace(a)) if ty.startswith('&') else a)
    return args, k, arrs, rhs


def infer_thomas_labels(lib):
    """which of the solver's three coefficient arrays is the upper / main / lower diagonal, read off how the forward sweep uses them:
    the one it updates is the main diagonal m; in  m'[j] = m[j] - (L[j] / m'[j-1]) * U[j-1]  the other array read at row j is the lower,
    the one read at row j-1 the upper diagonal.  Cached on lib as `thomas_labels` (by position)."""
    if getattr(lib, 'thomas_labels', None):
        return lib.thomas_labels
    b = lib.body(THOMAS)
    if b is None:
        return None
    anon = ['A0', 'A1', 'A2']
    m = TModel()
    it = Interp(lib, m)
    try:
        args, k, arrs, rhs = solver_args(lib, m, anon)
        it.call_def(b['def'], args)
    except (Unsupported, Diverge, IndexError, KeyError):
        return None
    fw = m.loop_reports[0] if m.loop_reports else None
    if not fw:
        return None
    upd = [n_ for n_ in fw['generic'] if n_ in anon]
    if len(upd) != 1:
        return None
    mid = upd[0]
    val = fw['generic'][mid][1]
    j = fw['var']
    low = up = None
    for a_ in val.atoms():
        mm = re.match(r'^(A\d)\[(.*)\]$', a_)
        if not mm or mm.group(1) == mid:
            continue
        if mm.group(2) == j:
            low = mm.group(1)
        elif mm.group(2) == str(A(j) - 1):
            up = mm.group(1)
    if low is None or up is None or len({low, up, mid}) != 3:
        return None
    lib.thomas_labels = [{'%s' % up: 'up', mid: 'mid', low: 'low'}[n_] for n_ in anon]
    return lib.thomas_labels


def thomas_evaluates(lib):
    """None if the solver body evaluates in the lane-generic model, else the exception"""
    b = lib.body(THOMAS)
    if b is None:
        return Unsupported("solver not found")
    m = TModel()
    it = Interp(lib, m)
    try:
        args, k, arrs, rhs = solver_args(lib, m, infer_thomas_labels(lib) or ['up', 'mid', 'low'])
        it.call_def(b['def'], args)
        return None
    except (Unsupported, Diverge) as ex:
        return ex


def check_thomas(chk, lib, rule):
    b = lib.body(THOMAS)
    if not chk.require(b is not None, rule, 'anchor-thomas', THOMAS, "the tridiagonal solver called by solve_for_k exists"):
        return
    where = b['span']
    m = TModel()
    it = Interp(lib, m)
    n = m.n
    labels = infer_thomas_labels(lib)
    chk.ob(rule, "the roles of the solver's three coefficient arrays (upper / main / lower diagonal) follow from how the forward sweep uses them: %s" % (labels,),
           labels is not None, where, 'thomas-roles')
    try:
        args, k, arrs, rhs = solver_args(lib, m, labels or ['up', 'mid', 'low'])
        it.call_def(b['def'], args)
    except (Unsupported, Diverge) as ex:
        chk.ob(rule, "the solver is within the reviewed lane-wise surface: %s" % ex, False, ex.where, 'thomas-unrecognised')
        return
    reps = m.loop_reports
    if not chk.ob(rule, "the solver consists of a forward sweep and a backward sweep (found %d loops)" % len(reps), len(reps) == 2, where, 'thomas-two-loops'):
        return
    fw, bw = reps
    j = A(fw['var'])
    one = Rat.const(1)
    # ---- forward sweep
    chk.ob(rule, "forward sweep runs over rows 1 .. len-1 in increasing order (got %s .. %s%s)" % (fw['lo'], fw['hi'], ' reversed' if fw['rev'] else ''),
           fw['lo'] == one and fw['hi'] == n - 1 and not fw['rev'], fw['where'], 'fw-range')
    g = fw['generic']
    ok = chk.ob(rule, "forward sweep updates exactly the diagonal and the right-hand side (updated: %s)" % sorted(g), sorted(g) == ['mid', 'rhs'], fw['where'], 'fw-updates')
    if ok:
        (imid, vmid), (irhs, vrhs) = g['mid'], g['rhs']
        chk.ob(rule, "forward sweep writes row j of both arrays (j the loop index)", str(imid) == fw['var'] and str(irhs) == fw['var'], fw['where'], 'fw-index')
        midj, lowj, midp, upp, rhsj = A('mid[%s]' % j), A('low[%s]' % j), A('mid[%s]' % (j - 1)), A('up[%s]' % (j - 1)), A('rhs[%s]' % j)
        w = lowj / midp
        chk.ob(rule, "forward step: new diagonal = mid[j] - (low[j]/mid'[j-1]) * up[j-1]  (row j minus w * row j-1)", vmid == midj - w * upp, fw['where'],
               'fw-diag', str(vmid))
        car = fw['carried']
        prev_row = A('rhs[%s]' % (j - 1))
        if not car and vrhs == rhsj - w * prev_row:
            # the previous row is read from the array itself: in an increasing sweep that writes row j, row j-1 holds the value the
            # previous step wrote (or the untouched row 0 in the first step)
            chk.ob(rule, "forward step: new rhs = rhs[j] - (low[j]/mid'[j-1]) * (row j-1 of the right-hand side, updated by the previous step)",
                   not fw['rev'], fw['where'], 'fw-rhs', str(vrhs))
        else:
            okc = chk.ob(rule, "forward sweep carries exactly one row temporary (found %s)" % sorted(car), len(car) == 1, fw['where'], 'fw-carry-one')
            if okc:
                nm = list(car)[0]
                pre, post = car[nm]
                c = A('carry:' + nm)
                chk.ob(rule, "forward step: new rhs = rhs[j] - (low[j]/mid'[j-1]) * (updated rhs of row j-1, carried in `%s`)" % nm,
                       vrhs == rhsj - w * c, fw['where'], 'fw-rhs', str(vrhs))
                chk.ob(rule, "the carried temporary starts as rhs[0] = the row before the first eliminated row", pre == A('rhs[0]'), fw['where'], 'fw-carry-init', str(pre))
                chk.ob(rule, "the carried temporary leaves the step holding the updated rhs of row j", post == vrhs, fw['where'], 'fw-carry-step', str(post))
        # the eliminated sub-diagonal entry: low[j] - w_eff * mid'[j-1] == 0 with w_eff recovered from the diagonal update
        weff = (midj - vmid) / upp
        chk.ob(rule, "the multiplier used eliminates the sub-diagonal entry: low[j] - w * mid'[j-1] == 0", (lowj - weff * midp).is_zero(), fw['where'], 'fw-eliminates')
    # ---- last row
    t = k.d['t']
    last = t.store.get(idx_name(n - 1))
    chk.ob(rule, "last unknown: k[len-1] = rhs'[len-1] / mid'[len-1] (values after the forward sweep)",
           last is not None and last[1] == A("rhs'[%s]" % (n - 1)) / A("mid'[%s]" % (n - 1)), where, 'last-row', str(last and last[1]))
    # ---- backward sweep
    jb = A(bw['var'])
    chk.ob(rule, "backward sweep runs over rows len-2 .. 0 in decreasing order (got %s .. %s%s)" % (bw['lo'], bw['hi'], ' reversed' if bw['rev'] else ''),
           bw['lo'] == Rat.const(0) and bw['hi'] == n - 2 and bw['rev'], bw['where'], 'bw-range')
    gb = bw['generic']
    okb = chk.ob(rule, "backward sweep writes exactly the unknowns k (updated: %s)" % sorted(gb), sorted(gb) == ['k'], bw['where'], 'bw-updates')
    if okb:
        (ik, vk) = list(gb.values())[0]
        chk.ob(rule, "backward sweep writes row j of k", str(ik) == bw['var'], bw['where'], 'bw-index')
        car = bw['carried']
        midj, upj, rhsj = A("mid'[%s]" % jb), A("up[%s]" % jb), A("rhs'[%s]" % jb)
        next_row = A("k[%s]" % (jb + 1))
        if not car and (midj * vk + upj * next_row - rhsj).is_zero():
            # k[j+1] is read from k itself: in a decreasing sweep that writes row j, row j+1 holds the value the previous step wrote
            # (or the last unknown, written before the sweep)
            chk.ob(rule, "back-substitution satisfies row j of the eliminated system: mid'[j] k[j] + up[j] k[j+1] - rhs'[j] == 0 (k[j+1] read from the row solved by the previous step)",
                   bw['rev'] and last is not None, bw['where'], 'bw-row', str(vk))
        elif chk.ob(rule, "backward sweep carries exactly one row temporary (found %s)" % sorted(car), len(car) == 1, bw['where'], 'bw-carry-one'):
            nm = list(car)[0]
            pre, post = car[nm]
            c = A('carry:' + nm)
            chk.ob(rule, "back-substitution satisfies row j of the eliminated system: mid'[j] k[j] + up[j] k[j+1] - rhs'[j] == 0 (k[j+1] carried in `%s`)" % nm,
                   (midj * vk + upj * c - rhsj).is_zero(), bw['where'], 'bw-row', str(vk))
            chk.ob(rule, "the carried temporary starts as k[len-1]", last is not None and pre == last[1], bw['where'], 'bw-carry-init', str(pre))
            chk.ob(rule, "the carried temporary leaves the step holding k[j]", post == vk, bw['where'], 'bw-carry-step')
    chk.sample({"thomas forward step": "mid'[j] = mid[j] - (low[j]/mid'[j-1]) up[j-1];  rhs'[j] = rhs[j] - (low[j]/mid'[j-1]) rhs'[j-1]"})


# --------------------------------------------------------------------------- 3-point NotAKnot arm
def check_three_point(chk, lib, rule, det_only=False):
    m, out, ex = run_solve(lib, mixed('NotAKnot', 'NotAKnot'), 3)
    where = lib.body(SFK)['span']
    if ex is not None:
        chk.ob(rule, "3-point NotAKnot arm is within the reviewed surface: %s" % ex, False, ex.where, 'three-point-unrecognised')
        return
    if not chk.ob(rule, "3-point NotAKnot: exactly one tridiagonal solve", len(m.thomas_calls) == 1, where, 'three-point-one-solve'):
        return
    s = System(m.thomas_calls[0])
    k = [A('k0'), A('k1'), A('k2')]
    rows = [s.at('mid', 0) * k[0] + s.at('up', 0) * k[1] - s.at('rhs', 0),
            s.at('low', 1) * k[0] + s.at('mid', 1) * k[1] + s.at('up', 1) * k[2] - s.at('rhs', 1),
            s.at('low', 2) * k[1] + s.at('mid', 2) * k[2] - s.at('rhs', 2)]
    para = {'c3': Rat.const(0)}
    sub = {str(Y(j)): cubic(X(j)).subs(para) for j in range(3)}
    ks = {'k%d' % j: dcubic(X(j)).subs(para) for j in range(3)}
    for i, F in enumerate(rows):
        if det_only:
            break
        Fp = F.subs(sub).subs(ks)
        chk.ob(rule, "3-point NotAKnot: row %d vanishes for the parabola through the three points with k = p'" % i, Fp.is_zero(), where,
               'three-point-row%d' % i, str(Fp)[:300])
    # uniqueness: determinant of the 3x3 system as a polynomial in the interval lengths
    m0, u0 = s.at('mid', 0), s.at('up', 0)
    l1, m1, u1 = s.at('low', 1), s.at('mid', 1), s.at('up', 1)
    l2, m2 = s.at('low', 2), s.at('mid', 2)
    det = m0 * (m1 * m2 - u1 * l2) - u0 * (l1 * m2)
    h0, h1 = A('h0'), A('h1')
    d = det.subs({str(X(1)): X(0) + h0, str(X(2)): X(0) + h0 + h1})
    okp = d.is_poly() and not d.is_zero()
    if okp:
        p = d.as_poly()
        okp = p.atoms() <= {'h0', 'h1'} and (all(c > 0 for c in p.t.values()) or all(c < 0 for c in p.t.values()))
    chk.ob(rule, "3-point NotAKnot: the determinant is a polynomial in the interval lengths with coefficients of one sign (%s): the "
                 "parabola's slopes are the unique solution" % d, okp, where, 'three-point-det', str(d))


# --------------------------------------------------------------------------- periodic arms
def cyclic_stencil(sysm, nodes_x, nodes_y):
    """the (verified) interior stencil re-instantiated at three arbitrary nodes"""
    L, _, _ = sysm.generic('low', 'i')
    M, _, _ = sysm.generic('mid', 'i')
    U, _, _ = sysm.generic('up', 'i')
    R, _, _ = sysm.generic('rhs', 'i')
    i = A('i')
    sub = {}
    for off, xv, yv in zip((-1, 0, 1), nodes_x, nodes_y):
        sub[str(X(i + off))] = xv
        sub[str(Y(i + off))] = yv
    return [z.subs(sub) for z in (L, M, U, R)]


def proportional(rows_a, rows_b):
    """two coefficient tuples describe the same equation up to a common non-zero factor"""
    pa = [a for a in rows_a]
    pb = [b for b in rows_b]
    for i in range(len(pa)):
        for j in range(i + 1, len(pa)):
            if not (pa[i] * pb[j] - pa[j] * pb[i]).is_zero():
                return False
    return any(not a.is_zero() for a in pa) and all(a.is_zero() == b.is_zero() for a, b in zip(pa, pb))


def check_periodic(chk, lib, rule, rule_ends):
    where = lib.body(SFK)['span']
    per = internal('Periodic')
    # ---- end rows must be equal, checked before anything is solved (both arms)
    for n in (3, None):
        nv = '3' if n == 3 else 'symbolic (>= 4)'
        nn = Rat.const(3) if n == 3 else N
        for ndim1 in (True, False):
            m, out, ex = run_solve(lib, per, n, ends_equal=False, ndim1=ndim1)
            key = 'periodic-ends-n%s-ndim1=%s' % (nv, ndim1)
            if ex is not None:
                chk.ob(rule_ends, "periodic arm (n %s): %s" % (nv, ex), False, ex.where, key + '-unrecognised')
                continue
            err = None
            if isinstance(out, Enum) and out.variant == 'Err':
                er = deref_all(out.fields['0'])
                err = er.variant if isinstance(er, Enum) else None
            cmpd = [c for c in m.cmp_events if c[0] == 'lanes']
            chk.ob(rule_ends, "Periodic, n %s: unequal first/last data rows -> Err(ValueError) before any solve and before k is written (got %s, %d solves)" %
                   (nv, err, len(m.thomas_calls)), err == 'ValueError' and not m.thomas_calls and not m.k.d['t'].writes, where, key)
            chk.ob(rule_ends, "Periodic, n %s: the rows compared are the first and the last data row (%s)" % (nv, cmpd[:1]),
                   len(cmpd) >= 1 and {cmpd[0][1], cmpd[0][2]} == {str(Y(0)), str(Y(nn - 1))}, where, key + '-which-rows')
    # ---- 3-point periodic arm
    m, out, ex = run_solve(lib, per, 3, ends_equal=True)
    if ex is not None:
        chk.ob(rule, "3-point periodic arm: %s" % ex, False, ex.where, 'periodic3-unrecognised')
    else:
        t = m.k.d['t']
        g = [g for g in t.generic if isinstance(g['value'], Rat)]
        ok = chk.ob(rule, "3-point Periodic: all three slopes are assigned one lane-wise value, no tridiagonal solve", len(g) == 1 and not m.thomas_calls and
                    g[0]['lo'] == Rat.const(0) and g[0]['hi'] == Rat.const(2), where, 'periodic3-shape')
        if ok:
            kap = g[0]['value'].subs({str(Y(2)): Y(0)})
            # node 1: ordinary stencil; node 0: cyclic stencil with left neighbour = node 1 shifted by one period
            ref, _, _ = run_solve(lib, mixed('Natural', 'Natural'), None)
            sg = System(ref.thomas_calls[0])
            P = X(2) - X(0)
            for nm, xs, ys in (('node 1', (X(0), X(1), X(2)), (Y(0), Y(1), Y(0))),
                               ('node 0 (cyclic)', (X(1) - P, X(0), X(1)), (Y(1), Y(0), Y(1)))):
                L, M, U, R = cyclic_stencil(sg, xs, ys)
                F = (L + M + U) * kap - R
                chk.ob(rule, "3-point Periodic: k0 = k1 = k2 = value satisfies the C2 stencil at %s" % nm, F.is_zero(), where, 'periodic3-' + nm.split()[1], str(F)[:300])
    # ---- general periodic arm
    m, out, ex = run_solve(lib, per, None, ends_equal=True)
    if ex is not None:
        chk.ob(rule, "general periodic arm: %s" % ex, False, ex.where, 'periodic-unrecognised')
        return
    if not chk.ob(rule, "general Periodic: two tridiagonal solves with the same condensed matrix (found %d)" % len(m.thomas_calls), len(m.thomas_calls) == 2, where, 'periodic-two-solves'):
        return
    s1, s2 = System(m.thomas_calls[0]), System(m.thomas_calls[1])
    same = True
    for nm in ('low', 'mid', 'up'):
        a, b = s1.arr(nm), s2.arr(nm)
        same &= (a.d['lo'] == b.d['lo'] and a.d['hi'] == b.d['hi'] and
                 {k: str(v[1]) for k, v in a.d['t'].store.items()} == {k: str(v[1]) for k, v in b.d['t'].store.items()} and
                 [str(g['value']) for g in a.d['t'].generic] == [str(g['value']) for g in b.d['t'].generic])
    chk.ob(rule, "general Periodic: both solves use identical sub/main/super-diagonals", same, where, 'periodic-same-matrix')
    chk.ob(rule, "general Periodic: the condensed system has n-2 unknowns (matrix %s, rhs %s / %s)" % (s1.length('mid'), s1.length('rhs'), s2.length('rhs')),
           all(s.length(a) == N - 2 for s in (s1, s2) for a in ('mid', 'rhs')), where, 'periodic-size')
    eq = {str(Y(N - 1)): Y(0)}
    ref, _, _ = run_solve(lib, mixed('Natural', 'Natural'), None)
    sg = System(ref.thomas_calls[0])
    # row 0: cyclic stencil at node 0, the k[n-2] column moved to the second right-hand side
    dxl = X(N - 1) - X(N - 2)
    L, M, U, R = cyclic_stencil(sg, (X(0) - dxl, X(0), X(1)), (Y(N - 2), Y(0), Y(1)))
    got = (-s2.at('rhs', 0), s1.at('mid', 0), s1.at('up', 0), s1.at('rhs', 0).subs(eq))
    chk.ob(rule, "general Periodic: row 0 is the C2 stencil at node 0 with the left neighbour taken one period back; its k[n-2] coefficient is "
                 "(minus) the first entry of the second right-hand side", proportional(got, (L, M, U, R)), where, 'periodic-row0', [str(z) for z in got])
    # last row of the condensed matrix: generic row n-3 whose super-diagonal entry (coefficient of k[n-2]) moved to rhs2
    Lg, Mg, Ug, Rg = cyclic_stencil(sg, (X(N - 4), X(N - 3), X(N - 2)), (Y(N - 4), Y(N - 3), Y(N - 2)))
    got = (s1.at('low', N - 3), s1.at('mid', N - 3), -s2.at('rhs', N - 3), s1.at('rhs', N - 3))
    chk.ob(rule, "general Periodic: row n-3 is the interior stencil; its k[n-2] coefficient is (minus) the last entry of the second right-hand side",
           proportional(got, (Lg, Mg, Ug, Rg)), where, 'periodic-row-last', [str(z) for z in got])
    # interior entries of rhs2 are zero
    t2 = s2.arr('rhs').d['t']
    keys = set(t2.store)
    chk.ob(rule, "general Periodic: the second right-hand side is zero except for its first and last entry (entries set: %s)" % sorted(keys),
           keys == {idx_name(Rat.const(0)), idx_name(N - 3)} and not t2.generic, where, 'periodic-rhs2')
    # closing row through the k[n-2] formula
    kt = m.k.d['t']
    kap = kt.store.get(idx_name(N - 2))
    klast = kt.store.get(idx_name(N - 1))
    if not chk.ob(rule, "general Periodic: k[n-2] and k[n-1] are assigned", kap is not None and klast is not None, where, 'periodic-closing-assigned'):
        return
    kap = kap[1].subs(eq)
    U0, Un, V0, Vn = 'K1[0]', 'K1[%s]' % (N - 3), 'K2[0]', 'K2[%s]' % (N - 3)
    atoms = kap.atoms()
    chk.ob(rule, "general Periodic: k[n-2] is computed from the first and last entries of the two partial solutions (%s)" %
           sorted(a for a in atoms if a.startswith('K')), {a for a in atoms if a.startswith('K')} == {U0, Un, V0, Vn}, where, 'periodic-kappa-atoms')
    num, den = kap.n, kap.d
    c_n3 = -num.coeff_of(Un, 1)      # coefficient a of k[n-3]
    c_0 = -num.coeff_of(U0, 1)       # coefficient c of k[n-1] = k[0]
    rconst = num.coeff_of(Un, 0).coeff_of(U0, 0)
    a2 = den.coeff_of(Vn, 1)
    c2 = den.coeff_of(V0, 1)
    bconst = den.coeff_of(Vn, 0).coeff_of(V0, 0)
    lin = (num.degree_in(Un) <= 1 and num.degree_in(U0) <= 1 and den.degree_in(Vn) <= 1 and den.degree_in(V0) <= 1 and
           not (num.atoms() & {V0, Vn}) and not (den.atoms() & {U0, Un}))
    chk.ob(rule, "general Periodic: k[n-2] = (r - a u[n-3] - c u[0]) / (a v[n-3] + b + c v[0]) - the closing row solved for k[n-2] with k = u + k[n-2] v",
           lin and Rat(c_n3) == Rat(a2) and Rat(c_0) == Rat(c2), where, 'periodic-kappa-form', str(kap)[:400])
    Lc, Mc, Uc, Rc = cyclic_stencil(sg, (X(N - 3), X(N - 2), X(N - 1)), (Y(N - 3), Y(N - 2), Y(0)))
    chk.ob(rule, "general Periodic: the closing row (a, b, c, r) is the C2 stencil at node n-2 with k[n-1] = k[0]",
           proportional((Rat(c_n3), Rat(bconst), Rat(c_0), Rat(rconst)), (Lc, Mc, Uc, Rc)), where, 'periodic-closing-row',
           [str(z) for z in (c_n3, bconst, c_0, rconst)])
    chk.ob(rule, "general Periodic: k[n-1] = k[0]", klast[1] == kt_row(m, Rat.const(0)), where, 'periodic-wrap', str(klast[1]))
    g = [g for g in kt.generic if not isinstance(g['value'], Rat)]
    ok = len(g) == 1 and g[0]['lo'] == Rat.const(0) and g[0]['hi'] == N - 3
    if ok:
        i = A('i')
        v = g[0]['value'].d['f'](i)
        ok = v == A('K1[i]') + kt.store[idx_name(N - 2)][1] * A('K2[i]')
    chk.ob(rule, "general Periodic: k[i] = u[i] + k[n-2] v[i] for i = 0 .. n-3", ok, where, 'periodic-assembly')


def kt_row(m, i):
    t = m.k.d['t']
    k = idx_name(i)
    if k in t.store:
        return t.store[k][1]
    for g in reversed(t.generic):
        if not isinstance(g['value'], Rat):
            return g['value'].d['f'](i)
        return reindex(g['value'], {g['var']: i})
    return None


# --------------------------------------------------------------------------- calc_coefficients: dispatch, shape check, a/b formulas
CS = 'CubicSpline'


def run_calc(lib, bc, **scn):
    b = lib.body(CALC)
    scn = dict(scn)
    scn['n'] = None
    scn['summarise_solve'] = True
    m = SModel(scn)
    it = Interp(lib, m)
    x, data = cubic_objects()
    fields = {}
    if bc == 'Individual':
        fields = {'0': Obj('data', name='bounds', lead=1, idx=[])}
        m.bounds = fields['0']
    try:
        from ..strategies import spline_builder
        s = spline_builder(lib, False, bc, order='b', bc_fields=fields)      # the builder as the public API produces it
        out = deref_all(it.call_def(b['def'], [Ref(ValPlace(s)), Ref(ValPlace(x)), Ref(ValPlace(data))]))
        return m, out, None, (x, data)
    except (Unsupported, Diverge) as ex:
        return m, None, ex, (x, data)


def check_dispatch(chk, lib, rule_tab, rule_shape):
    b = lib.body(CALC)
    if not chk.require(b is not None, rule_tab, 'anchor-calc', CALC, "the coefficient routine called by CubicSpline::build exists"):
        return
    where = b['span']
    seen_kinds = {}
    for bc in ('NotAKnot', 'Natural', 'Clamped', 'Periodic'):
        m, out, ex, (x, data) = run_calc(lib, bc)
        key = 'dispatch-' + bc
        if ex is not None:
            chk.ob(rule_tab, "calc_coefficients(%s) is within the reviewed surface: %s" % (bc, ex), False, ex.where, key + '-unrecognised')
            continue
        ok = len(m.solve_calls) == 1 and not m.individual_calls
        got = None
        if ok:
            a = m.solve_calls[0]['args']
            got = a[3].variant if isinstance(a[3], Enum) else None
            # which conditions the solver imposes for the boundary value it receives is decided on the rows it assembles (R3.1 toplevel-*):
            # here only the wiring: one solve, the builder's own operands, a boundary value of its own for each public kind
            ok = got is not None and a[3].key() not in seen_kinds and a[1] is x and a[2] is data and isinstance(a[0], Obj) and a[0].kind == 'arr2'
            seen_kinds[a[3].key()] = bc
        chk.ob(rule_tab, "BoundaryCondition::%s solves once, for all lanes together, on the builder's own axis and data, with a solver boundary of its own kind (got %s; kinds so far %s)" %
               (bc, got, sorted(seen_kinds.values())), ok, where, key)
    for okb in (True, False):
        m, out, ex, (x, data) = run_calc(lib, 'Individual', bounds_ok=okb)
        key = 'individual-bounds_ok=%s' % okb
        if ex is not None:
            chk.ob(rule_shape, "calc_coefficients(Individual) is within the reviewed surface: %s" % ex, False, ex.where, key + '-unrecognised')
            continue
        if okb:
            ok = len(m.individual_calls) == 1 and not m.solve_calls
            if ok:
                a = m.individual_calls[0]['args']
                ok = a[1] is x and a[2] is data and a[3] is m.bounds
            chk.ob(rule_tab, "BoundaryCondition::Individual with a correctly shaped boundary array goes to the per-lane dispatcher with the axis, data and that array", ok, where, key)
        else:
            err = None
            if isinstance(out, Enum) and out.variant == 'Err':
                er = deref_all(out.fields['0'])
                err = er.variant if isinstance(er, Enum) else None
            chk.ob(rule_shape, "BoundaryCondition::Individual with a boundary array whose shape differs from (1, trailing dims) -> Err(ShapeError) before any solve (got %s)" % err,
                   err == 'ShapeError' and not m.individual_calls and not m.solve_calls, where, key)
        cmpd = [c for c in m.cmp_events if c[0] == 'ddim']
        chk.ob(rule_shape, "the boundary array's shape is compared with the data shape whose leading entry is replaced by 1 (%s)" % cmpd[:1],
               len(cmpd) == 1 and ("'n': 1" in cmpd[0][1] or "'n': 1" in cmpd[0][2]), where, key + '-compared')
    # strategy errors are passed on unchanged
    m, out, ex, _ = run_calc(lib, 'Periodic', solve='err')
    same = ex is None and isinstance(out, Enum) and out.variant == 'Err' and deref_all(out.fields['0']) is m.ret_err
    chk.ob(rule_shape, "an error of the solver (Periodic end rows) is returned unchanged by calc_coefficients", same, where, 'solver-error-identity')


def extract_ab(chk, lib, rule):
    """(a[j], b[j]) as lane expressions in k[j], k[j+1], y[j], y[j+1], x[j], x[j+1], and their index range"""
    m, out, ex, _ = run_calc(lib, 'NotAKnot')
    where = lib.body(CALC)['span']
    if ex is not None or not (isinstance(out, Enum) and out.variant == 'Ok'):
        chk.ob(rule, "calc_coefficients is within the reviewed surface: %s" % ex, False, ex.where if ex else where, 'coeff-unrecognised')
        return None
    from ..strategies import aggregate_arrays
    items = aggregate_arrays(lib, out.fields['0']) or []
    ok = len(items) == 2 and all(isinstance(deref_all(z), Obj) and deref_all(z).kind == 'arr2' for z in items)
    if not chk.ob(rule, "calc_coefficients returns the two coefficient arrays", ok, where, 'coeff-shape'):
        return None
    res = []
    for z in items:
        t = deref_all(z).d['t']
        g = [g for g in t.generic if isinstance(g['value'], Rat)]
        if not chk.ob(rule, "each coefficient array is filled by one loop over the intervals", len(g) == 1 and not t.store, where, 'coeff-loop'):
            return None
        res.append((reindex(g[0]['value'], {g[0]['var']: A('j')}), g[0]['lo'], g[0]['hi'], deref_all(z).d['hi']))
    (a, lo, hi, la), (b, lo2, hi2, lb) = res
    chk.ob(rule, "the coefficient arrays have n-1 rows and the loop covers the intervals 0 .. n-2 (%s..%s, %s..%s, rows %s/%s)" % (lo, hi, lo2, hi2, la, lb),
           lo == Rat.const(0) and lo2 == Rat.const(0) and hi == N - 2 and hi2 == N - 2 and la == N - 1 and lb == N - 1, where, 'coeff-range')
    return a, b


def check_hermite(chk, lib, rule_pass, rule_c1, rule_repro):
    """reader/writer agreement between calc_coefficients (a, b from slopes) and the evaluation kernel."""
    from ..kernels import run_spline, SPL
    ab = extract_ab(chk, lib, rule_c1)
    if ab is None:
        return
    a, b = ab
    o = run_spline(lib, 'No', 'inside')
    where = lib.body(SPL)['span']
    if not chk.ob(rule_pass, "evaluation kernel extracted", o.kind == 'ok' and len(o.m.writes) == 1, where, 'eval-kernel'):
        return
    P = o.m.writes[0][1]
    i = A('i_x')
    q = A('q')
    xl, xr = X(i), X(i + 1)
    yl, yr = Y(i), Y(i + 1)
    al, bl = data_atom('a', [i]), data_atom('b', [i])
    used = P.atoms()
    chk.ob(rule_pass, "the piece uses data, a and b of the SAME interval index as the axis values (atoms: %s)" % sorted(used),
           used <= {'q', str(xl), str(xr), str(yl), str(yr), str(al), str(bl)}, where, 'eval-same-index')
    chk.ob(rule_pass, "S(x_left) = y_left for every a, b (the spline passes through the data)", P.subs({'q': xl}) == yl, where, 'eval-left')
    chk.ob(rule_pass, "S(x_right) = y_right for every a, b", P.subs({'q': xr}) == yr, where, 'eval-right')
    # one cubic per interval: degree in q after clearing the (q-free) denominator
    den_free = 'q' not in P.d.atoms()
    chk.ob(rule_pass, "each piece is a polynomial of degree <= 3 in the query", den_free and P.n.degree_in('q') <= 3, where, 'eval-degree')
    # C1: derivative at both ends equals the slopes the coefficients were built from
    aj = reindex(a, {'j': i})
    bj = reindex(b, {'j': i})
    kl, kr = A('k[%s]' % i), A('k[%s]' % (i + 1))
    Pk = P.subs({str(al): aj, str(bl): bj})
    dP = diff(Pk, 'q')
    chk.ob(rule_c1, "reader/writer agreement: with a, b as computed by calc_coefficients, S'(x_left) = k[i]", dP.subs({'q': xl}) == kl, where, 'c1-left', str(dP.subs({'q': xl}))[:300])
    chk.ob(rule_c1, "reader/writer agreement: S'(x_right) = k[i+1] (so neighbouring pieces share value and first derivative)", dP.subs({'q': xr}) == kr, where, 'c1-right')
    # second derivative at the ends in terms of k, y: used by the interior stencil consistency
    d2 = diff(dP, 'q')
    # reproduction: y = p(x), k = p'(x)  ->  S == p on the whole line
    sub = {str(yl): cubic(xl), str(yr): cubic(xr), str(kl): dcubic(xl), str(kr): dcubic(xr)}
    Pp = Pk.subs(sub)
    chk.ob(rule_repro, "Hermite consistency: with y = p(x), k = p'(x) for a cubic p, the piece equals p(q) for every q (also outside [x_left, x_right])",
           Pp == cubic(q), where, 'hermite-reproduces', str(Pp)[:300])
    chk.sample({"a[j]": str(a), "b[j]": str(b)})
    return Pk, d2


# --------------------------------------------------------------------------- top-level kinds and the per-lane dispatcher
def check_toplevel_kinds(chk, lib, rule):
    where = lib.body(SFK)['span']
    for kind in ('NotAKnot', 'Natural', 'Clamped'):
        for n in (None, 3):
            if n == 3 and kind == 'NotAKnot':
                continue   # the 3-point parabola arm, checked separately
            nv = 'symbolic (>= 4)' if n is None else '3'
            nn = N if n is None else Rat.const(3)
            m, out, ex = run_solve(lib, internal(kind), n)
            key = 'toplevel-%s-n%s' % (kind, nv)
            if ex is not None:
                chk.ob(rule, "solve_for_k(InternalBoundary::%s), n %s: %s" % (kind, nv, ex), False, ex.where, key + '-unrecognised')
                continue
            if not chk.ob(rule, "InternalBoundary::%s, n %s: one solve" % (kind, nv), len(m.thomas_calls) == 1, where, key + '-one-solve'):
                continue
            s = System(m.thomas_calls[0])
            left_row_check(chk, rule, kind, s, where, nv + ' whole-set ' + kind)
            right_row_check(chk, rule, kind, s, where, nv + ' whole-set ' + kind, nn)


FROM_RB = '<InternalBoundary as std::convert::From>::from'
SFKI = 'CubicSpline::solve_for_k_individual'


class IndModel(SModel):
    def __init__(self, scn):
        scn = dict(scn)
        scn['n'] = None
        scn['summarise_solve'] = True
        super().__init__(scn)
        self.iter_axes = []
        self.fold_steps = []

    def compare(self, op, a, b, e):
        if isinstance(a, Num) and isinstance(b, Num) and 'ndim(' in str(a.r) + str(b.r):
            sa = str(a.r)
            c = b.const()
            if sa.startswith('ndim(') and c == 1 and op in ('gt', 'le'):
                deep = bool(self.scn['deep'])
                self.cmp_events.append(('ndim', sa, op, c))
                return deep if op == 'gt' else (not deep)
            raise Unsupported("rank test %s %s %s (only `ndim > 1` is tabulated)" % (a, op, b), e)
        if isinstance(a, Num) and isinstance(b, Num) and getattr(self, 'lane_counter', None) and str(a.r) == self.lane_counter and op == 'lt':
            self.lane_bound = str(b.r)
            return True       # the inductive step of the loop over the lanes runs under its condition
        return super().compare(op, a, b, e)

    def call(self, name, cal, args, e, frame):
        last = name.split('::')[-1]
        a0 = deref_all(args[0]) if args else None
        if isinstance(a0, Obj) and a0.kind == 'dyn':
            if last == 'ndim':
                return Num(A('ndim(%s)' % a0.d['role']))
            if last in ('axis_iter_mut', 'axis_iter'):
                ax = deref_all(args[1])
                axv = str(deref_all(ax.fields['0']).r) if isinstance(ax, Enum) else repr(ax)
                self.iter_axes.append((a0.d['role'], axv))
                return Obj('dyniter', of=a0, axis=axv)
            if last in ('index_axis', 'index_axis_mut', 'index_axis_move') and isinstance(deref_all(args[2]), Num) and \
                    getattr(self, 'lane_counter', None) and str(deref_all(args[2]).r) == self.lane_counter:
                # the lane the loop is at, selected by index: same as one element of axis_iter over that axis
                ax = deref_all(args[1])
                axv = str(deref_all(ax.fields['0']).r) if isinstance(ax, Enum) else repr(ax)
                self.iter_axes.append((a0.d['role'], axv))
                return Obj('dyn', role=a0.d['role'], depth=a0.d['depth'] + 1, parent_axis=axv)
            if last == 'first' and a0.d['role'] == 'boundary':
                import copy
                return SOME(Ref(ValPlace(copy.deepcopy(self.scn['row_boundary']))))
            if last in ('view', 'view_mut', 'into_dyn'):
                return a0
        if name == 'std::convert::Into::into' and isinstance(a0, Enum) and a0.adt == RB:
            imp = from_row_boundary_impl(self.interp.lib)
            if imp is not None:
                return self.interp.call_def(imp, [a0], e)
            return self.interp.call_norm(FROM_RB, [a0], e)
        if last == 'len_of' and isinstance(a0, Obj) and a0.kind == 'dyn':
            return Num(A('len(%s)' % a0.d['role']))
        if name == 'std::iter::Iterator::zip' and isinstance(a0, Obj) and a0.kind in ('dyniter', 'dynzip'):
            b = deref_all(args[1])
            if isinstance(b, Obj) and b.kind in ('dyniter', 'dynzip'):
                return Obj('dynzip', tree=('zip', a0, b))
        if name == 'std::iter::Iterator::try_for_each' and isinstance(a0, Obj) and a0.kind in ('dyniter', 'dynzip'):
            # one inductive step: std's try_for_each stops at the first Err / None and returns it, otherwise goes on and returns Ok(())
            self.loop_form = True
            r = deref_all(self.interp.apply(args[1], [_dyn_elem(a0)], e))
            if not (isinstance(r, Enum) and r.adt == 'std::result::Result'):
                raise Unsupported("try_for_each over the lanes with a step that returns %r" % (r,), e)
            return r
        if last == 'fold_while' and isinstance(a0, Obj) and a0.kind == 'zip':
            parts = a0.d['parts']
            subs = []
            for p in parts:
                if not (isinstance(p, Obj) and p.kind == 'dyniter'):
                    raise Unsupported("dispatcher zips %r" % (p,), e)
                subs.append(Obj('dyn', role=p.d['of'].d['role'], depth=p.d['of'].d['depth'] + 1, parent_axis=p.d['axis']))
            r = deref_all(self.interp.apply(args[2], [args[1]] + subs, e))
            self.fold_steps.append(r)
            return r
        if last == 'into_inner' and isinstance(a0, Enum) and a0.adt == 'ndarray::FoldWhile':
            return a0.fields['0']
        return super().call(name, cal, args, e, frame)


def _dyn_elem(node):
    if node.kind == 'dyniter':
        o = node.d['of']
        return Obj('dyn', role=o.d['role'], depth=o.d['depth'] + 1, parent_axis=node.d['axis'])
    _, l, r = node.d['tree']
    return Tup([_dyn_elem(l), _dyn_elem(r)])


def _indmodel_for_loop(self, iterable, pat, body, frame, e):
    it = deref_all(iterable)
    if isinstance(it, Obj) and it.kind in ('dynzip', 'dyniter'):
        elem = _dyn_elem(it)
        if not self.interp.match_pat(pat, ValPlace(elem), frame):
            raise Unsupported("dispatcher loop pattern", e)
        self.loop_form = True
        self.interp.eval(body, frame)        # an error leaves through `?` (early return)
        return Unit()
    return SModel.for_loop(self, iterable, pat, body, frame, e)


IndModel.for_loop = _indmodel_for_loop


def _indmodel_plain_loop(self, body, frame, e):
    """`while lane < lanes { ...index_axis(ax, lane)...; lane += 1 }`: one inductive step with a symbolic lane number"""
    cands = {}
    f = frame
    while f is not None:
        for k_, v_ in f.vars.items():
            if isinstance(v_, Num) and v_.const() == 0 and k_ not in cands:
                cands[k_] = f
        f = f.parent
    if len(cands) != 1:
        raise Unsupported("`loop`/`while` is not modelled (no single lane counter starting at 0)", e)
    k_, f0 = list(cands.items())[0]
    f0.vars[k_] = Num(A('lane*'))
    self.lane_counter, self.lane_bound = 'lane*', None
    self.loop_form = True
    try:
        self.interp.eval(body, Frame(frame))     # an error leaves through an early return
    finally:
        self.lane_counter = None
    now = f0.vars[k_]
    if not (isinstance(now, Num) and now.r == A('lane*') + 1 and self.lane_bound == str(A('len(k)'))):
        raise Unsupported("the loop over the lanes does not run from 0 to the length of k's last axis in steps of one", e)
    self.loop_form = True
    return Unit()


IndModel.plain_loop = _indmodel_plain_loop


def check_dispatcher(chk, lib, rule):
    b = lib.body(SFKI)
    if not chk.require(b is not None, rule, 'anchor-dispatcher', SFKI, "the per-lane boundary dispatcher exists"):
        return
    where = b['span']
    x = Obj('axis', name='x')

    def objs():
        return [Obj('dyn', role=r, depth=0) for r in ('k', 'data', 'boundary')]
    # ---- recursion step
    for res in ('ok', 'err'):
        m = IndModel({'deep': True, 'solve': res})
        it = Interp(lib, m)
        k, data, bd = objs()
        try:
            out = deref_all(it.call_def(b['def'], entry_args(lib, SFKI, k, x, data, bd)))
        except (Unsupported, Diverge) as ex:
            chk.ob(rule, "the dispatcher (rank > 1) is within the reviewed surface: %s" % ex, False, ex.where, 'dispatch-deep-unrecognised')
            continue
        axes = m.iter_axes
        chk.ob(rule, "rank > 1: k, data and the boundary array are split along the same axis, the last one of k (%s)" % axes,
               sorted(r for r, _ in axes) == ['boundary', 'data', 'k'] and len({a for _, a in axes}) == 1 and axes[0][1] == str(A('ndim(k)') - 1),
               where, 'dispatch-same-axis-' + res)
        rec = m.individual_calls
        ok = len(rec) == 1
        if ok:
            a = rec[0]['args']
            ok = ([z.d.get('role') for z in (a[0], a[2], a[3])] == ['k', 'data', 'boundary'] and all(z.d['depth'] == 1 for z in (a[0], a[2], a[3])) and a[1] is x)
        chk.ob(rule, "rank > 1: the recursion receives the co-iterated sub-views of k, data and boundary (in these roles) and the same axis x", ok, where, 'dispatch-recursion-' + res)
        if res == 'err':
            same = isinstance(out, Enum) and out.variant == 'Err' and deref_all(out.fields['0']) is m.ret_err
            step = m.fold_steps[0].variant if m.fold_steps else ('early return' if getattr(m, 'loop_form', False) else None)
            chk.ob(rule, "rank > 1: an error of a lane stops the iteration (%s) and is returned unchanged" % step, same and step in ('Done', 'early return'), where, 'dispatch-error')
        else:
            chk.ob(rule, "rank > 1: success continues with the next lane and finally returns Ok", isinstance(out, Enum) and out.variant == 'Ok' and
                   ((m.fold_steps and m.fold_steps[0].variant == 'Continue') or getattr(m, 'loop_form', False)), where, 'dispatch-continue')
    # ---- leaf: the lane's own boundary element, converted variant by variant
    vl, vr = Num(A('bl')), Num(A('br'))
    cases = {'NotAKnot': Enum(RB, 'NotAKnot'), 'Natural': Enum(RB, 'Natural'), 'Clamped': Enum(RB, 'Clamped'),
             'Mixed': Enum(RB, 'Mixed', {'left': Enum(SB, 'FirstDeriv', {'0': vl}), 'right': Enum(SB, 'SecondDeriv', {'0': vr})})}
    for nm, rb in cases.items():
        m = IndModel({'deep': False, 'row_boundary': rb})
        it = Interp(lib, m)
        k, data, bd = objs()
        try:
            it.call_def(b['def'], entry_args(lib, SFKI, k, x, data, bd))
        except (Unsupported, Diverge) as ex:
            chk.ob(rule, "the dispatcher (rank <= 1) is within the reviewed surface: %s" % ex, False, ex.where, 'dispatch-leaf-unrecognised')
            continue
        rec = m.solve_calls
        ok = len(rec) == 1 and not m.individual_calls
        if ok:
            a = rec[0]['args']
            got = a[3]
            # the element reaches the solver through the one conversion RowBoundary -> solver boundary (whose meaning C03 decides), unchanged
            imp = from_row_boundary_impl(lib)
            import copy
            want = deref_all(Interp(lib, KModel()).call_def(imp, [copy.deepcopy(rb)])) if imp is not None else None
            ok = (a[0] is k and a[1] is x and a[2] is data and isinstance(got, Enum) and want is not None and got.key() == want.key())
            if ok and imp is not None and nm != 'Mixed':
                # sibling agreement: the per-lane conversion and the whole-set dispatch produce the same solver boundary for the same kind
                top = resolve_boundary(lib, internal(nm))
                ok = isinstance(top, Enum) and top.key() == got.key()
        chk.ob(rule, "rank <= 1: the lane is solved once with its own data, its own slopes and its own boundary element RowBoundary::%s, converted to the same kind (values kept)" % nm,
               ok, where, 'dispatch-leaf-' + nm)


def build_checks(chk, lib, rule):
    """R10.3 (used by C10): boundary array shape check, periodic end rows, strategy errors unchanged"""
    check_dispatch(chk, lib, rule, rule)
    check_periodic_ends_only(chk, lib, rule)


def check_periodic_ends_only(chk, lib, rule):
    where = lib.body(SFK)['span']
    per = internal('Periodic')
    for n in (3, None):
        nv = '3' if n == 3 else 'symbolic (>= 4)'
        nn = Rat.const(3) if n == 3 else N
        for ndim1 in (True, False):
            m, out, ex = run_solve(lib, per, n, ends_equal=False, ndim1=ndim1)
            key = 'periodic-ends-n%s-ndim1=%s' % (nv, ndim1)
            if ex is not None:
                chk.ob(rule, "periodic arm (n %s): %s" % (nv, ex), False, ex.where, key + '-unrecognised')
                continue
            err = None
            if isinstance(out, Enum) and out.variant == 'Err':
                er = deref_all(out.fields['0'])
                err = er.variant if isinstance(er, Enum) else None
            cmpd = [c for c in m.cmp_events if c[0] == 'lanes']
            chk.ob(rule, "Periodic, n %s: unequal first/last data rows -> Err(ValueError) before any solve (got %s)" % (nv, err),
                   err == 'ValueError' and not m.thomas_calls and not m.k.d['t'].writes, where, key)
            chk.ob(rule, "Periodic, n %s: the rows compared are the first and the last data row" % nv,
                   len(cmpd) >= 1 and {cmpd[0][1], cmpd[0][2]} == {str(Y(0)), str(Y(nn - 1))}, where, key + '-which-rows')


# --------------------------------------------------------------------------- reader-based oracles: the rows against the evaluation formula
def piece_in_k(lib):
    """the spline piece of interval i_x as a rational function of q, x[i], x[i+1], y[i], y[i+1], k[i], k[i+1]
    (evaluation kernel with a, b replaced by what calc_coefficients writes); None if extraction fails"""
    from ..kernels import run_spline
    m, out, ex, _ = run_calc(lib, 'NotAKnot')
    if ex is not None or not (isinstance(out, Enum) and out.variant == 'Ok'):
        return None
    from ..strategies import aggregate_arrays
    try:
        ab = []
        for z in aggregate_arrays(lib, out.fields['0']):
            t = deref_all(z).d['t']
            g = [g for g in t.generic if isinstance(g['value'], Rat)][0]
            ab.append(reindex(g['value'], {g['var']: A('i_x')}))
    except Exception:
        return None
    o = run_spline(lib, 'Yes', 'inside')
    if o.kind != 'ok' or len(o.m.writes) != 1:
        return None
    i = A('i_x')
    return o.m.writes[0][1].subs({str(data_atom('a', [i])): ab[0], str(data_atom('b', [i])): ab[1]})


def piece_at(Pk, j):
    return reindex(Pk, {'i_x': j if isinstance(j, Rat) else Rat.const(j)})


def dq(r, n=1):
    for _ in range(n):
        r = diff(r, 'q')
    return r


def kname(j):
    return 'k[%s]' % idx_name(j if isinstance(j, Rat) else Rat.const(j))


def lin_coeff(r, atom):
    """coefficient of `atom` in a rational function that is linear in it (denominator free of it)"""
    return Rat(r.n.coeff_of(atom, 1), r.d)


def in_span(F, gens, probes):
    """is the linear form F a combination of the linear forms `gens`?  The multipliers are determined from the coefficients
    of the probe atoms (one per generator) and the identity is then verified exactly."""
    n = len(gens)
    # solve the n x n system  sum_j lam_j * coeff(gens_j, probe_i) = coeff(F, probe_i)  by Cramer (n <= 2)
    Mx = [[lin_coeff(g, p) for g in gens] for p in probes]
    rhs = [lin_coeff(F, p) for p in probes]
    if n == 1:
        if Mx[0][0].is_zero():
            return False
        lam = [rhs[0] / Mx[0][0]]
    else:
        det = Mx[0][0] * Mx[1][1] - Mx[0][1] * Mx[1][0]
        if det.is_zero():
            return False
        lam = [(rhs[0] * Mx[1][1] - Mx[0][1] * rhs[1]) / det, (Mx[0][0] * rhs[1] - rhs[0] * Mx[1][0]) / det]
    comb = Rat.const(0)
    for l, g in zip(lam, gens):
        comb = comb + l * g
    return (F - comb).is_zero() and not all(l.is_zero() for l in lam)


def check_rows_against_reader(chk, lib, rule_c2, rule_bc, do_interior=True, do_boundary=True):
    """ties the WRITER (rows of the system) to the READER (piece formula): the interior row is the jump of S'' computed from the
    neighbouring pieces, and each boundary row is the boundary quantity computed from the end piece(s)."""
    Pk = piece_in_k(lib)
    where = lib.body(SFK)['span']
    if not chk.ob(rule_c2, "the spline piece was extracted as a function of the slopes k (evaluation kernel composed with calc_coefficients)", Pk is not None, where, 'reader-extracted'):
        return
    i = A('i')
    # ---- interior: jump of the second derivative at node i
    J2 = dq(piece_at(Pk, i - 1), 2).subs({'q': X(i)}) - dq(piece_at(Pk, i), 2).subs({'q': X(i)})
    m, out, ex = run_solve(lib, mixed('Natural', 'Natural'), None)
    if ex is not None or len(m.thomas_calls) != 1:
        chk.ob(rule_c2, "system extracted for the reader comparison: %s" % ex, False, ex.where if ex else where, 'reader-system')
        return
    s = System(m.thomas_calls[0])
    L, _, _ = s.generic('low')
    M, _, _ = s.generic('mid')
    U, _, _ = s.generic('up')
    R, _, _ = s.generic('rhs')
    F = L * A(kname(i - 1)) + M * A(kname(i)) + U * A(kname(i + 1)) - R
    if do_interior:
        chk.ob(rule_c2, "interior row i is proportional to S''(x_i - 0) - S''(x_i + 0) computed from the two neighbouring pieces as the evaluation code reads them",
               in_span(F, [J2], [kname(i)]), where, 'reader-c2-jump', str(J2)[:300])
    if not do_boundary:
        return
    # ---- boundary rows, n symbolic and n = 3
    for nval in (None, 3):
        nn = N if nval is None else Rat.const(3)
        nv = 'symbolic' if nval is None else '3'
        for kind in KINDS:
            if nval == 3 and kind == 'NotAKnot':
                other = 'Natural'     # (NotAKnot, NotAKnot, 3) is the parabola arm
            else:
                other = kind
            for side in ('left', 'right'):
                lk, rk = (kind, other) if side == 'left' else (other, kind)
                m, out, ex = run_solve(lib, mixed(lk, rk), nval)
                key = 'reader-%s-%s-n%s' % (side, kind, nv)
                if ex is not None or len(m.thomas_calls) != 1:
                    chk.ob(rule_bc, "system Mixed{%s,%s} n %s extracted: %s" % (lk, rk, nv, ex), False, ex.where if ex else where, key + '-system')
                    continue
                s = System(m.thomas_calls[0])
                if side == 'left':
                    e0, e1, e2 = Rat.const(0), Rat.const(1), Rat.const(2)
                    Frow = s.at('mid', 0) * A(kname(e0)) + s.at('up', 0) * A(kname(e1)) - s.at('rhs', 0)
                    end_piece, inner_piece = piece_at(Pk, e0), piece_at(Pk, e1)
                    xe = X(e0)
                    v = A('v_l')
                    inner_node = e1
                else:
                    e0, e1, e2 = nn - 1, nn - 2, nn - 3
                    Frow = s.at('mid', nn - 1) * A(kname(e0)) + s.at('low', nn - 1) * A(kname(e1)) - s.at('rhs', nn - 1)
                    end_piece, inner_piece = piece_at(Pk, e1), piece_at(Pk, e2)
                    xe = X(e0)
                    v = A('v_r')
                    inner_node = e1
                if kind in ('Natural', 'SecondDeriv'):
                    Bq = dq(end_piece, 2).subs({'q': xe}) - (v if kind == 'SecondDeriv' else Rat.const(0))
                    ok = in_span(Frow, [Bq], [kname(e0)])
                    what = "S''(x_end)%s computed from the end piece" % (' - v' if kind == 'SecondDeriv' else '')
                elif kind in ('Clamped', 'FirstDeriv'):
                    Bq = dq(end_piece, 1).subs({'q': xe}) - (v if kind == 'FirstDeriv' else Rat.const(0))
                    ok = in_span(Frow, [Bq], [kname(e0)])
                    what = "S'(x_end)%s computed from the end piece" % (' - v' if kind == 'FirstDeriv' else '')
                else:
                    # third-derivative jump at the first interior node, possibly reduced by the interior (C2) row of that node
                    J3 = dq(end_piece, 3) - dq(inner_piece, 3)
                    j = inner_node
                    Lj, Mj, Uj, Rj = s.at('low', j), s.at('mid', j), s.at('up', j), s.at('rhs', j)
                    Fint = Lj * A(kname(j - 1)) + Mj * A(kname(j)) + Uj * A(kname(j + 1)) - Rj
                    ok = in_span(Frow, [J3, Fint], [kname(e0), kname(e2)])
                    what = "the jump of S''' at the first interior node (reduced by that node's C2 row), computed from the two end pieces"
                chk.ob(rule_bc, "%s %s row (n %s) is proportional to %s, as the evaluation code reads them" % (side, kind, nv, what), ok, where, key)
