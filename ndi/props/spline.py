"""Spline build-side analysis (placeholder until the solver model lands)."""


def build_checks(chk, lib, rule):
    return
