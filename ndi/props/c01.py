"""C01 - Linear returns the piecewise-linear interpolant."""
from .common import *
from ..kernels import *

LEVEL = 'other'
CALC = 'Linear::calc_frac'


def two_point(x1, y1, x2, y2, x):
    return y1 + (y2 - y1) * (x - x1) / (x2 - x1)


def calc_frac_identity(chk, lib, rule):
    b = lib.body(CALC)
    if b is None:
        # the two-point helper is not part of any public contract: when it is absent (renamed, inlined) the kernel-level identity
        # below decides the same formula on the strategy body itself
        chk.note('two_point_helper', 'not present under the name %s; formula decided on the kernel only' % CALC)
        return None
    A = Rat.atom
    x1, y1, x2, y2, x = A('x1'), A('y1'), A('x2'), A('y2'), A('x')
    try:
        out = deref_all(Interp(lib, KModel()).call_def(b['def'], [Tup([Num(x1), Num(y1)]), Tup([Num(x2), Num(y2)]), Num(x)]))
    except Exception as ex:
        chk.ob(rule, "calc_frac is a closed-form arithmetic expression of its five inputs: %s" % ex, False, getattr(ex, 'where', ''), 'calc_frac-shape')
        return None
    if not isinstance(out, Num):
        chk.ob(rule, "calc_frac returns a number", False, b['span'], 'calc_frac-shape')
        return None
    r = out.r
    chk.sample({"calc_frac((x1,y1),(x2,y2),x)": str(r)})
    chk.ob(rule, "calc_frac((x1,y1),(x2,y2),x) == y1 + (y2-y1)(x-x1)/(x2-x1) as rational functions", r == two_point(x1, y1, x2, y2, x),
           b['span'], 'calc_frac-two-point', str(r))
    chk.ob(rule, "calc_frac at x = x1 is y1", r.subs({'x': x1}) == y1, b['span'], 'calc_frac-at-x1')
    chk.ob(rule, "calc_frac at x = x2 is y2", r.subs({'x': x2}) == y2, b['span'], 'calc_frac-at-x2')
    return r


def linear_wiring(chk, lib, rule, rels=('first', 'inside', 'last'), ext=False):
    A = Rat.atom
    i = A('i_x')
    xi, xi1 = ax_atom('x', i), ax_atom('x', i + 1)
    yi, yi1 = data_atom('y', [i]), data_atom('y', [i + 1])
    q = A('q')
    want = two_point(xi, yi, xi1, yi1, q)
    res = []
    for rel in rels:
        o = run_linear(lib, ext, rel)
        key = 'linear-%s-%s' % (ext, rel)
        if o.kind != 'ok':
            chk.ob(rule, "Linear::interp_into (extrapolate=%s, q %s) computes a value: %s %s %s" % (ext, rel, o.kind, o.err, o.exc),
                   False, (o.exc.where if o.exc else ''), key)
            continue
        chk.ob(rule, "Linear (extrapolate=%s, q %s): exactly one lookup, in axis x, with the unmodified query (got %s)" %
               (ext, rel, [(a, str(v)) for a, v in o.m.lookups]),
               len(o.m.lookups) == 1 and o.m.lookups[0][0] == 'x' and o.m.lookups[0][1] == q, lib.body(LIN)['span'], key + '-lookup')
        chk.ob(rule, "Linear (extrapolate=%s, q %s): every lane of the target is written exactly once" % (ext, rel),
               len(o.m.writes) == 1, lib.body(LIN)['span'], key + '-write-once')
        if len(o.m.writes) != 1:
            continue
        got = o.m.writes[0][1]
        chk.ob(rule, "Linear (extrapolate=%s, q %s): lane value == y[i] + (y[i+1]-y[i])(q-x[i])/(x[i+1]-x[i]) with i = the looked-up index" %
               (ext, rel), got == want, lib.body(LIN)['span'], key + '-formula', str(got))
        res.append(got)
    return want, res


def run(chk):
    lib = load(chk)
    chk.technique = "kernel extraction from the typed tree + rational-function normal form (identity with the two-point form), wiring by provenance of the extracted atoms"
    chk.rule('R1.1', "Linear::calc_frac is identically the two-point form and exact at both points (over the reals)")
    chk.rule('R1.2', "Linear::interp_into writes, in every lane, the two-point form through (x[i], data[i]) and (x[i+1], data[i+1]) "
                     "evaluated at the unmodified query, i being the result of the bracket lookup of that same query in axis x")
    chk.rule('R1.3', "index_point(i) hands out x[i] and data.index_axis(Axis(0), i) for the same i (the atoms of R1.2 come from its real body)")
    chk.assumptions += ["element arithmetic is read as exact field arithmetic (rounding - 'a few ulps' - is NOT decided)",
                        "Zip::for_each applies the closure to corresponding lanes of equally shaped operands",
                        "the bracket index itself is the subject of C11"]
    calc_frac_identity(chk, lib, 'R1.1')
    linear_wiring(chk, lib, 'R1.2', ext=True)   # the range guard itself is C05's subject: evaluate the kernel with the guard off
    # R1.3: index_point evaluated alone
    b = anchor(chk, lib, 'Interp1D::index_point', 'R1.3')
    if b is not None:
        m = KModel()
        try:
            out = deref_all(Interp(lib, m).call_def(b['def'], [Ref(ValPlace(interp1d_obj(Unit()))), Num(Rat.atom('k'))]))
            ok = (isinstance(out, Tup) and len(out.items) == 2 and isinstance(deref_all(out.items[0]), Num) and
                  deref_all(out.items[0]).r == ax_atom('x', Rat.atom('k')) and
                  isinstance(deref_all(out.items[1]), Obj) and deref_all(out.items[1]).kind == 'lanes' and
                  deref_all(out.items[1]).d['r'] == data_atom('y', [Rat.atom('k')]))
            chk.ob('R1.3', "index_point(k) == (x[k], data.index_axis(Axis(0), k)) (got %r)" % (out,), ok, b['span'], 'index_point')
        except Exception as ex:
            chk.ob('R1.3', "index_point is plain indexing: %s" % ex, False, getattr(ex, 'where', ''), 'index_point')
    # 'the two data points that bracket it': the comparison skeleton of the bracket lookup (shared with C11)
    from . import c11
    chk.rule('R1.4', "every Interp1D entry point (interp_scalar / interp / interp_into / interp_array / interp_array_into, fast and general path) hands Linear the "
                     "unmodified value of one query element and stores the result under that element's index")
    from . import c09
    chk.floor('R1.4', '1-D entry point runs that reach the strategy', c09.query_delivery(chk, lib, 'R1.4', 1), 7)
    c11.analyse(chk, lib, set_text=False)
    chk.explanation = ("The arithmetic kernel of the Linear strategy is extracted from the typed tree and normalised as a "
                       "rational function: it is identically the straight line through the two bracketing points, for every "
                       "lane, with the query unmodified. Decided over the reals; rounding is out of reach of this technique.")
