"""C14 - *_into calls fill exactly the caller's buffer or reject a wrongly shaped one."""
from .common import *
from .entry import *
from ..kernels import run_linear, run_spline, run_bilinear, LIN, SPL, BIL

LEVEL = 'other'


def strategy_target_alignment(chk, lib, rule):
    """the built-in strategies consume the target in ONE Zip together with the lane views of the data (ndarray pairs the operands by
    logical index whatever their memory layouts, and checks the shapes) and assign every lane once, from nothing the target held before"""
    n3 = 0
    for name, o in (('Linear', run_linear(lib, True, 'inside')), ('CubicSpline', run_spline(lib, 'Yes', 'inside')),
                    ('Bilinear', run_bilinear(lib, True, 'inside', 'inside'))):
        evs = [e for e in o.m.events if e[0] == 'zip_for_each'] if o.kind == 'ok' else []
        ok = len(evs) == 1 and any(k == 'target' for k, _ in evs[0][1]) and any(k == 'lanes' and (lbl.startswith('y[') or lbl.startswith('z[')) for k, lbl in evs[0][1])
        n3 += 1
        olds = [a for w in o.m.writes for a in w[1].atoms() if a.endswith('.old')] if o.kind == 'ok' else []
        chk.ob(rule, "%s: the value written does not depend on what the target held before (it is overwritten, not accumulated into)" % name, not olds,
               lib.body({'Linear': LIN, 'CubicSpline': SPL, 'Bilinear': BIL}[name])['span'], 'strategy-overwrites-' + name)
        chk.ob(rule, "%s: the target is an operand of the one Zip that also holds data lanes (%s) and is assigned once per lane (%d writes)" %
               (name, evs[0][1] if evs else o.exc, len(o.m.writes)), ok and len(o.m.writes) == 1,
               lib.body({'Linear': LIN, 'CubicSpline': SPL, 'Bilinear': BIL}[name])['span'], 'strategy-zip-' + name)
    return n3


def run(chk):
    lib = load(chk)
    chk.technique = ("path rules over the entry points evaluated on a symbolic shape domain (scenario table: path taken x buffer "
                     "shape equal/unequal x query shapes equal/unequal x sink result); Zip operand sets of the built-in strategies")
    chk.rule('R14.1', "general path of interp_array_into: the buffer's shape is compared with get_buffer_shape(xs.raw_dim()) = "
                      "query dims ++ trailing data dims before the first strategy call, and inequality panics")
    chk.rule('R14.2', "rank-1 fast path: xs and buffer.axis_iter_mut(Axis(0)) are operands of one Zip (length check by ndarray's "
                      "contract) and the buffer's trailing axes are compared with the data's trailing axes before the loop")
    chk.rule('R14.3', "every built-in strategy consumes the target in one Zip together with lane views of the data (shape check by "
                      "ndarray's contract) and assigns every lane exactly once")
    chk.rule('R14.4', "2-D: xs.shape() == ys.shape() is asserted before anything else in interp_array and interp_array_into")
    chk.rule('R14.5', "interp_into hands the caller's buffer itself (whole, unmodified view) to the strategy; the general path hands the "
                      "sub-view selected by the element's own index (unit slice on query axes, full range on trailing axes)")
    chk.assumptions += ["ndarray::Zip::and panics when operand shapes differ; Zip::for_each visits every element",
                        "writes outside the buffer view are impossible in safe Rust (unsafe is confined to the identity cast: C13/C19)",
                        "user-defined strategies receive a correctly shaped target (C18) - what they write is their business"]
    runs = all_runs(lib)
    chk.note('entry_point_runs', len(runs))
    chk.floor('R14.1', 'entry point scenario runs', len(runs), 2 * (2 + 2 + 2) + 4 + 8 + 8 + 16)
    for r in runs:
        key = '%dd-%s-%s' % (r.lead, r.name, ','.join('%s=%s' % kv for kv in sorted(r.scn.items())))
        where = r.exc.where if r.exc else ''
        if r.outcome == 'unsupported':
            chk.ob('R14.1', "entry point %s is within the reviewed surface: %s" % (key, r.exc), False, where, key + '-unrecognised')
            continue
        if r.name == 'interp_array_into':
            path = 'fast' if r.scn['fast'] else 'general'
            rule = 'R14.2' if r.scn['fast'] else 'R14.1'
            qok = r.scn.get('qshape_ok', True)
            if r.lead == 2 and not qok:
                continue  # R14.4 below
            want = '[T*]' if r.scn['fast'] else '[Q*, T*]'
            asked = [q for q in r.m.shape_questions if q[3] == 0 and want in (q[0], q[1]) and ('B' in q[0] or 'B' in q[1])]
            if r.scn['shape_ok']:
                chk.ob(rule, "%s (%s path): before the first strategy call the buffer shape is compared with %s (questions: %s)" %
                       (key, path, want, r.m.shape_questions), len(asked) >= 1 and r.outcome == 'return', where, key + '-shape-compared')
            else:
                chk.ob(rule, "%s (%s path): a buffer whose shape differs from %s panics before any strategy call (outcome %s, %d calls)" %
                       (key, path, want, r.outcome, len(r.m.sinks)), r.outcome == 'panic' and len(r.m.sinks) == 0 and len(asked) >= 1,
                       where, key + '-reject')
            if r.scn['fast'] and r.scn['shape_ok'] and r.outcome == 'return':
                z = [z for z in r.m.zips if any("'role': 'query'" in p for p in z) and any('axis_iter_mut' in p and "'caller'" in p for p in z)]
                chk.ob('R14.2', "%s: xs and buffer.axis_iter_mut(Axis(0)) are operands of one Zip (%s)" % (key, r.m.zips), len(z) == 1,
                       where, key + '-zip')
        if r.lead == 2 and r.name in ('interp_array', 'interp_array_into'):
            if not r.scn.get('qshape_ok', True):
                first = r.m.qassert[:1]
                chk.ob('R14.4', "%s: differing xs/ys shapes panic before any strategy call and before any other check (outcome %s, "
                                "calls %d, first question %s)" % (key, r.outcome, len(r.m.sinks), first),
                       r.outcome == 'panic' and not r.m.sinks and first and not r.m.shape_questions, where, key + '-qshape')
            else:
                chk.ob('R14.4', "%s: xs.shape() == ys.shape() is asked first (%s)" % (key, r.m.qassert[:1]),
                       len(r.m.qassert) >= 1 and r.m.qassert[0][3] == 0, where, key + '-qshape-asked')
        if r.name == 'interp_into' and r.outcome == 'return':
            ok = len(r.m.sinks) == 1 and r.m.sinks[0]['target'] is r.m.buf
            chk.ob('R14.5', "%s: the strategy receives the caller's buffer view itself" % key, ok, where, key + '-whole-buffer')
        if r.name == 'interp_array_into' and not r.scn['fast'] and r.outcome == 'return':
            ev = [e for e in r.m.events if e[0] == 'slice_each_axis']
            t = r.m.sinks[0]['target'] if r.m.sinks else None
            ok = (len(ev) >= 1 and all(x[1] and x[2] for x in ev) and t is not None and t.d['rootkind'] == 'caller' and t.d['lead'] == 'qidx'
                  and repr(t.d['shape']) == '[T*]')
            chk.ob('R14.5', "%s: per-element sub-view = unit slice at the element's own index on every query axis, full range on "
                            "trailing axes, all query axes dropped (shape %s)" % (key, t.d['shape'] if t is not None else None), ok, where, key + '-subview')
    strategy_target_alignment(chk, lib, 'R14.3')
    chk.sample({"general path question": "buffer.raw_dim() [B*] == get_buffer_shape(xs.raw_dim()) [Q*, T*]", "fast path question": "[BT*] == [T*]"})
    chk.explanation = ("All entry points with a buffer were evaluated over a symbolic shape domain for every combination of path, "
                       "buffer-shape-equal/unequal, query-shapes-equal/unequal and sink result (%d runs): a wrong shape always ends in a "
                       "panic before the first strategy call, a right shape reaches the strategy with the whole buffer / the element's own "
                       "sub-view, and the built-in strategies assign every lane of the target once inside a Zip with the data lanes. "
                       "Defects D3 and D5 (fixed) were exactly missing questions in this table." % len(runs))
