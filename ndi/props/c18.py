"""C18 - custom strategies get validated inputs, correct targets, faithful accessors."""
from .common import *
from .entry import *
from . import c10 as C10
from .c05 import range_tables
from ..kernels import *

LEVEL = 'other'


def run(chk):
    lib = load(chk)
    chk.technique = ("opaque-strategy evaluation of builders and entry points over finite scenario tables (symbolic shapes, identity of "
                     "argument objects) + accessor decision tables")
    chk.rule('R18.1', "Strat::build is called only on rows of the builder's decision table where every requirement holds, with the builder's own, unmodified axes and data")
    chk.rule('R18.2', "at every Strat::interp_into call the receiver is the interpolator's own strategy, the interpolator argument is the interpolator itself, "
                      "the query is the caller's unmodified value / array element, and the target is: zeros of (data dims minus interpolated axes), the 0-d view of the "
                      "1-element buffer, the caller's buffer itself, or a sub-view of it whose shape was checked against the required shape")
    chk.rule('R18.3', "accessors are faithful: index_point(i) = (axis[i], data[i]), is_in_range is the closed-range test, get_index_left_of is the lookup in the matching axis")
    chk.rule('R18.4', "an error returned by Strat::build or Strat::interp_into reaches the caller unchanged (same value) from every entry point")
    # ---- R18.1
    n1 = 0
    for lead in (1, 2):
        path = ('Interp1DBuilder::build' if lead == 1 else 'Interp2DBuilder::build')
        b = anchor(chk, lib, path, 'R18.1')
        if b is None:
            continue
        for scn in C10.scenarios(lead, True):
            m, bv, outcome, out = C10.run_build(lib, lead, scn)
            viol = C10.violated(lead, scn)
            n1 += 1
            key = '%dd-ndim=%s,short=%s,len=%s,mono=%s' % (lead, scn['ndim'], scn['short'], sorted(scn['len_ok'].items()), sorted(scn['mono'].items()))
            if outcome == 'unsupported':
                chk.ob('R18.1', "build() is a decision over the requirement table: %s" % out, False, out.where, 'unrecognised-%dd-%s' % (lead, str(out.why)[:60]))
                continue
            if viol:
                chk.ob('R18.1', "%s: invalid input (%s) never reaches the strategy's build (%d calls)" % (key, sorted(viol), len(m.builds)),
                       not m.builds, b['span'], key + '-not-called')
            else:
                ok = len(m.builds) == 1 and m.builds[0]['self'] is bv.parts['strategy'] and m.builds[0]['args'][-1] is bv.parts['data'] and \
                    m.builds[0]['args'][0] is bv.parts['x'] and (lead == 1 or m.builds[0]['args'][1] is bv.parts['y'])
                chk.ob('R18.1', "%s: the strategy's build receives the builder's own x%s and data" % (key, ', y' if lead == 2 else ''), ok, b['span'], key + '-args')
                if scn['build'] == 'err' and outcome == 'return':
                    same = isinstance(out, Enum) and out.variant == 'Err' and deref_all(out.fields['0']) is m.err_token
                    chk.ob('R18.4', "%s: the strategy's build error is returned unchanged" % key, same, b['span'], key + '-build-err')
    chk.floor('R18.1', 'builder rows', n1, 2480)
    # ---- R18.2 / R18.4 entry points
    runs = all_runs(lib)
    chk.floor('R18.2', 'entry point scenario runs', len(runs), 48)
    ncall = 0
    for r in runs:
        key = '%dd-%s-%s' % (r.lead, r.name, ','.join('%s=%s' % kv for kv in sorted(r.scn.items())))
        where = r.exc.where if r.exc else ''
        if r.outcome == 'unsupported':
            chk.ob('R18.2', "entry point %s is within the reviewed surface: %s" % (key, r.exc), False, where, key + '-unrecognised')
            continue
        if r.outcome == 'panic':
            chk.ob('R18.2', "%s: a rejected call never reaches the strategy (%d calls)" % (key, len(r.m.sinks)), not r.m.sinks, where, key + '-panic-no-call')
            continue
        for s in r.m.sinks:
            ncall += 1
            t = s['target']
            chk.ob('R18.2', "%s: receiver is the interpolator's own strategy and the interpolator argument is the interpolator itself" % key,
                   s['self_is_strategy_field'] and s['interp_is_self'], s['where'], key + '-identity')
            want_q = ['qx', 'qy'][:r.lead] if r.name in ('interp_scalar', 'interp', 'interp_into') else ['xs[e]', 'ys[e]'][:r.lead]
            chk.ob('R18.2', "%s: query argument(s) are the caller's unmodified value(s) %s (got %s)" % (key, want_q, s['queries']),
                   s['queries'] == want_q, s['where'], key + '-query')
            shape = repr(t.d['shape'])
            rk = t.d['rootkind']
            if r.name == 'interp_scalar':
                ok = rk == 'scalarbuf' and shape == '[]'
                what = "the 0-d view of the 1-element buffer (data is %s)" % ('Ix1' if r.lead == 1 else 'Ix2')
            elif r.name == 'interp':
                ok = rk == 'alloc' and shape == '[T*]' and t.d['lead'] is None
                what = "zeros of data dims minus the interpolated axes"
            elif r.name == 'interp_into':
                ok = t is r.m.buf
                what = "the caller's buffer itself"
            elif r.name == 'interp_array':
                ok = rk == 'alloc' and shape == '[T*]' and t.d['lead'] in ('qidx', 'axis0[e]')
                what = "the element's sub-view (shape [T*]) of the freshly allocated result"
            else:
                if r.scn['fast']:
                    passed = [q for q in r.m.shape_questions if q[2] and '[T*]' in (q[0], q[1]) and q[3] == 0]
                    ok = rk == 'caller' and t.d['lead'] == 'axis0[e]' and (shape == '[T*]' or (shape == '[BT*]' and passed))
                else:
                    ok = rk == 'caller' and t.d['lead'] == 'qidx' and shape == '[T*]'
                what = "the element's sub-view of the caller's buffer, whose shape was checked to be [T*]"
            chk.ob('R18.2', "%s: the target is %s (got %s %s lead=%s)" % (key, what, rk, shape, t.d.get('lead')), ok, s['where'], key + '-target')
        if r.scn['sink'] == 'err':
            same = is_err(r.value) and deref_all(r.value.fields['0']) is getattr(r.m, 'err_token', None)
            chk.ob('R18.4', "%s: the strategy's interp_into error is returned unchanged" % key, same, where, key + '-err-identity')
    chk.floor('R18.2', 'strategy call sites reached', ncall, 36)
    # ---- R18.3 accessors
    range_tables(chk, lib, 'R18.3')
    for lead, path, args, want in (
            (1, 'Interp1D::index_point', ['k'], None), (2, 'Interp2D::index_point', ['a', 'b'], None),
            (1, 'Interp1D::get_index_left_of', ['q'], [('x', 'q')]), (2, 'Interp2D::get_index_left_of', ['qx', 'qy'], [('x', 'qx'), ('y', 'qy')])):
        b = anchor(chk, lib, path, 'R18.3')
        if b is None:
            continue
        m = KModel()
        try:
            io = interp1d_obj(Unit()) if lead == 1 else interp2d_obj(Unit())
            out = deref_all(Interp(lib, m).call_def(b['def'], [Ref(ValPlace(io))] + [Num(Rat.atom(a)) for a in args]))
            if 'index_point' in path:
                its = [deref_all(x) for x in out.items]
                if lead == 1:
                    ok = its[0].r == ax_atom('x', Rat.atom('k')) and its[1].d['r'] == data_atom('y', [Rat.atom('k')])
                else:
                    ok = its[0].r == ax_atom('x', Rat.atom('a')) and its[1].r == ax_atom('y', Rat.atom('b')) and \
                        its[2].d['r'] == data_atom('z', [Rat.atom('a'), Rat.atom('b')])
                chk.ob('R18.3', "%s returns exactly the axis value(s) and the data row at the given index/indices" % path, ok, b['span'], 'acc-' + path)
            else:
                chk.ob('R18.3', "%s is the bracket lookup of the unmodified query in the matching axis (%s)" % (path, [(a, str(v)) for a, v in m.lookups]),
                       [(a, str(v)) for a, v in m.lookups] == want, b['span'], 'acc-' + path)
        except Exception as ex:
            chk.ob('R18.3', "%s is a plain accessor: %s" % (path, ex), False, getattr(ex, 'where', ''), 'acc-' + path)
    chk.exhaustive = True
    chk.sample({"entry": "interp_array (general path): sink(self.strategy, self, buffer[e.., ..] : [T*], xs[e])"})
    chk.explanation = ("With an opaque user strategy, the builders' complete decision tables (%d rows) show its build is reached only with validated, "
                       "unmodified inputs; all %d entry-point scenario runs show interp_into receives the interpolator, the unmodified query and a "
                       "target of the documented shape; accessors are decided by their own tables; errors are passed through by identity." % (n1, len(runs)))
