"""C04 - Bilinear returns the bilinear blend of the cell."""
from .common import *
from ..kernels import *

LEVEL = 'other'


def bilinear_identity(chk, lib, rule, relx='inside', rely='inside', ext=False):
    A = Rat.atom
    i, j = A('i_x'), A('i_y')
    qx, qy = A('qx'), A('qy')
    o = run_bilinear(lib, ext, relx, rely)
    key = 'bilinear-%s-%s-%s' % (ext, relx, rely)
    span = lib.body(BIL)['span']
    if o.kind != 'ok':
        chk.ob(rule, "Bilinear (extrapolate=%s, qx %s, qy %s) computes: %s %s %s" % (ext, relx, rely, o.kind, o.err, o.exc),
               False, (o.exc.where if o.exc else span), key)
        return None
    lk = [(a, str(v)) for a, v in o.m.lookups]
    chk.ob(rule, "Bilinear: x is looked up in axis x and y in axis y, both unmodified (got %s)" % lk,
           sorted(lk) == [('x', 'qx'), ('y', 'qy')], span, key + '-lookup')
    chk.ob(rule, "Bilinear: every lane of the target is written exactly once", len(o.m.writes) == 1, span, key + '-write-once')
    if len(o.m.writes) != 1:
        return None
    got = o.m.writes[0][1]
    # substitute z[a,b] := p(x[a], y[b]) for a generic bilinear p
    c0, c1, c2, c3 = A('c0'), A('c1'), A('c2'), A('c3')

    def p(X, Y):
        return c0 + c1 * X + c2 * Y + c3 * X * Y
    sub = {}
    for di in (0, 1):
        for dj in (0, 1):
            za = data_atom('z', [i + di, j + dj])
            sub[str(za)] = p(ax_atom('x', i + di), ax_atom('y', j + dj))
    used = {a for a in got.atoms() if a.startswith('z[')}
    chk.ob(rule, "Bilinear reads exactly the four corner lanes z[i+d, j+e], d,e in {0,1} (got %s)" % sorted(used),
           used == set(sub), span, key + '-corners')
    val = got.subs(sub)
    chk.ob(rule, "with z[a,b] = p(x[a], y[b]) for a symbolic bilinear p = c0+c1 x+c2 y+c3 xy, the result is p(qx, qy) "
                 "(fixes the formula and the roles of x/y, of the mixed neighbours and of the axes)",
           val == p(qx, qy), span, key + '-reproduces-bilinear', str(got)[:600])
    # node reproduction
    for di in (0, 1):
        for dj in (0, 1):
            at = got.subs({'qx': ax_atom('x', i + di), 'qy': ax_atom('y', j + dj)})
            chk.ob(rule, "at the grid node (x[i+%d], y[j+%d]) the result is z[i+%d, j+%d]" % (di, dj, di, dj),
                   at == data_atom('z', [i + di, j + dj]), span, key + '-node-%d%d' % (di, dj))
    return got


def run(chk):
    lib = load(chk)
    chk.technique = "kernel extraction from the typed tree + polynomial identity (reproduction of a symbolic bilinear function)"
    chk.rule('R4.1', "the value written by Bilinear::interp_into reproduces every bilinear function of (x, y) sampled at the four "
                     "corners of the looked-up cell, and the four grid nodes")
    chk.rule('R4.2', "Interp2D::index_point(a,b) == (x[a], y[b], data[a,b]); get_index_left_of looks x up in axis x and y in axis y")
    chk.assumptions += ["element arithmetic is read as exact field arithmetic (rounding is NOT decided)"]
    if anchor(chk, lib, BIL, 'R4.1') is None:
        return
    got = bilinear_identity(chk, lib, 'R4.1', ext=True)   # range guards are C05's subject
    if got is not None:
        chk.sample({"bilinear lane value (first 300 chars)": str(got)[:300]})
    b = anchor(chk, lib, 'Interp2D::index_point', 'R4.2')
    if b is not None:
        try:
            out = deref_all(Interp(lib, KModel()).call_def(b['def'], [Ref(ValPlace(interp2d_obj(Unit()))), Num(Rat.atom('a')), Num(Rat.atom('b'))]))
            its = [deref_all(x) for x in out.items] if isinstance(out, Tup) else []
            ok = (len(its) == 3 and isinstance(its[0], Num) and its[0].r == ax_atom('x', Rat.atom('a')) and
                  isinstance(its[1], Num) and its[1].r == ax_atom('y', Rat.atom('b')) and isinstance(its[2], Obj) and
                  its[2].kind == 'lanes' and its[2].d['r'] == data_atom('z', [Rat.atom('a'), Rat.atom('b')]))
            chk.ob('R4.2', "index_point(a,b) == (x[a], y[b], data[a,b]) (got %r)" % (out,), ok, b['span'], 'index_point2d')
        except Exception as ex:
            chk.ob('R4.2', "Interp2D::index_point is plain indexing: %s" % ex, False, getattr(ex, 'where', ''), 'index_point2d')
    b = anchor(chk, lib, 'Interp2D::get_index_left_of', 'R4.2')
    if b is not None:
        m = KModel()
        try:
            out = deref_all(Interp(lib, m).call_def(b['def'], [Ref(ValPlace(interp2d_obj(Unit()))), Num(Rat.atom('qx')), Num(Rat.atom('qy'))]))
            its = [deref_all(x) for x in out.items] if isinstance(out, Tup) else []
            ok = (len(its) == 2 and str(its[0].r) == 'i_x' and str(its[1].r) == 'i_y' and
                  [(a, str(v)) for a, v in m.lookups] == [('x', 'qx'), ('y', 'qy')])
            chk.ob('R4.2', "get_index_left_of(qx,qy) == (lookup of qx in x, lookup of qy in y)", ok, b['span'], 'get_index_left_of2d')
        except Exception as ex:
            chk.ob('R4.2', "Interp2D::get_index_left_of: %s" % ex, False, getattr(ex, 'where', ''), 'get_index_left_of2d')
    # 'any query': what reaches the kernel is the (x, y) pair of one query element, on every entry point
    chk.rule('R4.3', "every Interp2D entry point (interp_scalar / interp / interp_into / interp_array / interp_array_into, fast and general path) hands Bilinear the "
                     "unmodified x and y of the same query element and stores the result under that element's index")
    from . import c09
    chk.floor('R4.3', '2-D entry point runs that reach the strategy', c09.query_delivery(chk, lib, 'R4.3', 2), 7)
    # 'the four grid values surrounding the query': the comparison skeleton of the bracket lookup (shared with C11)
    from . import c11
    c11.analyse(chk, lib, set_text=False)
    chk.explanation = ("The per-lane value written by the Bilinear strategy is extracted as a rational function of the four corner "
                       "values, the four axis values and the query; substituting a symbolic bilinear function for the data yields "
                       "that function at the query, which fixes formula and wiring (any swap of roles fails it). Over the reals.")
