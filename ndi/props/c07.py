"""C07 - a periodic spline with extrapolation is evaluated as a periodic function."""
from .common import *
from ..kernels import *
from .c06 import extrapolate_selection

LEVEL = 'other'


def run(chk):
    lib = load(chk)
    chk.technique = "kernel extraction with rem_euclid as an uninterpreted symbol + normal-form comparison; wrap applied iff (Periodic and out of range) by the finite guard table"
    chk.rule('R7.1', "the wrapped argument is rem_euclid(q - x[0], x[n-1] - x[0]) + x[0] with x the interpolator's own axis")
    chk.rule('R7.2', "the wrap is applied iff Extrapolate::Periodic and the query is out of range, and the wrapped value feeds both the bracket lookup and the evaluation")
    chk.rule('R7.3', "Extrapolate::Periodic is selected only for (extrapolate = true, boundary = Periodic)")
    chk.assumptions += ["over the reals rem_euclid(a + k*P, P) = rem_euclid(a, P) in [0, P): hence S(wrap(q + kP)) = S(wrap(q)); "
                        "rounding of the wrapped argument far from the range is NOT decided",
                        "equal first/last data rows for Periodic are enforced at build time (C10 R10.3)"]
    if anchor(chk, lib, SPL, 'R7.1') is None:
        return
    span = lib.body(SPL)['span']
    q = Rat.atom('q')
    x0 = ax_atom('x', 0)
    xn = ax_atom('x', Rat.atom('n_x') - 1)
    base = run_spline(lib, 'Yes', 'inside')
    if not chk.ob('R7.2', "reference kernel (in range) extracted", base.kind == 'ok' and len(base.m.writes) == 1, span, 'reference'):
        return
    f_in = base.m.writes[0][1]
    n = 0
    for rel in ('below', 'above'):
        o = run_spline(lib, 'Periodic', rel)
        key = 'periodic-' + rel
        if not chk.ob('R7.2', "Periodic, query %s the range: computes (got %s %s %s)" % (rel, o.kind, o.err, o.exc),
                      o.kind == 'ok' and len(o.m.writes) == 1, span, key):
            continue
        n += 1
        ui = o.m.uninterp
        chk.ob('R7.1', "exactly one rem_euclid is applied (found %d)" % len(ui), len(ui) == 1, span, key + '-one-rem')
        if len(ui) != 1:
            continue
        nm, (fn, a, b) = list(ui.items())[0]
        chk.ob('R7.1', "rem_euclid dividend is q - x[0] (got %s)" % a, a == q - x0, span, key + '-dividend', str(a))
        chk.ob('R7.1', "rem_euclid divisor is the period x[n-1] - x[0] (got %s)" % b, b == xn - x0, span, key + '-divisor', str(b))
        w = Rat.atom(nm) + x0
        chk.ob('R7.2', "the bracket lookup receives the wrapped query rem_euclid(..) + x[0] (got %s)" % [str(v) for _, v in o.m.lookups],
               len(o.m.lookups) == 1 and o.m.lookups[0][0] == 'x' and o.m.lookups[0][1] == w, span, key + '-lookup')
        chk.ob('R7.2', "the lane value is the in-range expression with q replaced by the wrapped query",
               o.m.writes[0][1] == f_in.subs({'q': w}), span, key + '-eval')
    for ext, rel in (('Periodic', 'first'), ('Periodic', 'inside'), ('Periodic', 'last'), ('Yes', 'below'), ('Yes', 'above')):
        o = run_spline(lib, ext, rel)
        n += 1
        chk.ob('R7.2', "%s, query %s: no wrap (lookup gets the raw query, no rem_euclid)" % (ext, rel),
               o.kind == 'ok' and not o.m.uninterp and len(o.m.lookups) == 1 and o.m.lookups[0][1] == q, span, 'nowrap-%s-%s' % (ext, rel))
    chk.floor('R7.2', 'periodic scenarios evaluated', n, 7)
    extrapolate_selection(chk, lib, 'R7.3')
    chk.rule('R7.4', "Periodic data must have equal first and last rows: unequal rows are rejected at build time before anything is solved (so range ends and their images map to one value)")
    from . import spline as S
    S.check_periodic_ends_only(chk, lib, 'R7.4')
    chk.sample({"wrapped query": "rem_euclid(q - x[0]; x[n_x-1] - x[0]) + x[0]"})
    chk.explanation = ("The argument wrap of the periodic spline is extracted symbolically: it is rem_euclid(q - x0, xn - x0) + x0 on "
                       "the interpolator's own axis, applied exactly when Extrapolate::Periodic and out of range, and feeds both lookup "
                       "and evaluation; over the reals this makes the evaluation P-periodic. A wrap without the x0 shift, or with the wrong "
                       "period, changes the normal form and is reported.")
