"""C02 - the spline passes through the data and is a C2 piecewise cubic."""
from .common import *
from . import spline as S

LEVEL = 'other'


def run(chk):
    lib = load(chk)
    chk.technique = ("kernel extraction of evaluation, coefficient, row-assembly and solver code from the typed tree + exact polynomial identities "
                     "(form-free, scale-free row functionals; loops as single inductive steps)")
    chk.rule('R2.1', "evaluation: P(x_left) = y_left and P(x_right) = y_right for all coefficients; each piece has degree <= 3 in the query; data, a, b and axis use the same interval index")
    chk.rule('R2.3', "reader/writer agreement: with a, b as computed from the slopes k, P'(x_left) = k[i] and P'(x_right) = k[i+1] (C1)")
    chk.rule('R2.4', "interior rows: the row functional low k[i-1] + mid k[i] + up k[i+1] - rhs vanishes on cubics and on the truncated power at x_i and is non-zero, "
                     "i.e. it is the C2 condition up to scale; slices, windows(3) and loop ranges cover exactly rows 1..n-2")
    chk.rule('R2.5', "solver: the forward step is row j minus w * row j-1 with the eliminated entry zero, back-substitution satisfies its row, ranges 1..len-1 and len-2..0, carried temporaries carry the neighbouring row")
    chk.assumptions += ["arithmetic is read as exact field arithmetic: conditioning and rounding of the solve ('smooth up to rounding') are NOT decided",
                        "interval lengths and pivots are non-zero (strictly increasing axis; diagonal dominance of the system - textbook)",
                        "lane-wise operation (one symbolic lane stands for all): C08"]
    for p in (S.SFK, S.THOMAS, S.CALC):
        if anchor(chk, lib, p, 'R2.4') is None:
            return
    S.check_hermite(chk, lib, 'R2.1', 'R2.3', 'R2.3')
    n1 = S.general_arm(chk, lib, 'R2.4', 'R2.4', None, only_interior=True)
    n2 = S.general_arm(chk, lib, 'R2.4', 'R2.4', 3, only_interior=True)
    chk.floor('R2.4', 'tridiagonal systems extracted', n1 + n2, 49)
    S.check_thomas(chk, lib, 'R2.5')
    chk.rule('R2.7', "reader/writer end to end: the interior row is proportional to the jump S''(x_i - 0) - S''(x_i + 0) computed from the neighbouring pieces "
                     "exactly as the evaluation code reads them (piece formula composed with calc_coefficients)")
    S.check_rows_against_reader(chk, lib, 'R2.7', 'R2.7', do_boundary=False)
    chk.rule('R2.8', "the 3-point NotAKnot system (whole-set or spelled as Mixed{NotAKnot, NotAKnot}) is uniquely solvable: its determinant is a polynomial of one sign in the interval lengths "
                     "(a singular system would make every value NaN, so the curve would not pass through the data)")
    S.check_three_point(chk, lib, 'R2.8', det_only=True)
    chk.rule('R2.6', "Periodic: the rows of the condensed cyclic system (row 0, the last condensed row whose k[n-2] coefficient sits in the second right-hand side, the closing row) are "
                     "the same C2 stencil instantiated cyclically, and the condensation is consistent - the C2 conditions at the knots next to the wrap-around")
    S.check_periodic(chk, lib, 'R2.6', 'R2.6')
    chk.explanation = ("The spline code is decided over the reals by exact polynomial identities on kernels extracted from the typed tree: the piece "
                       "formula interpolates and is cubic; a, b as written make the piece's end slopes the solved k (C1); every interior row of the "
                       "system is the C2 condition (its functional annihilates cubics and the truncated power); the Thomas solver is checked as one "
                       "inductive elimination step and one back-substitution step. %d systems (all boundary pairs, n symbolic and n = 3)." % (n1 + n2))
