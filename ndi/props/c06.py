"""C06 - extrapolation continues the end polynomial and never rejects a finite query."""
from .common import *
from ..kernels import *
from .c05 import guard_tables

LEVEL = 'other'
FINITE = ('below', 'first', 'inside', 'last', 'above')
CS = 'CubicSpline'
BUILD = '<CubicSpline as Interp1DStrategyBuilder>::build'
BC = 'BoundaryCondition'


from ..strategies import BuildModel, spline_builder, spline_finished
from ..kernels import behaviour_class

WANT = {'No': 'rejects', 'Yes': 'extrapolates', 'Periodic': 'wraps'}


def extrapolate_selection(chk, lib, rule, flags=(False, True)):
    """the strategy CubicSpline::build returns for every (flag, boundary kind, order of the public setters), classified by what it
    does with an out-of-range query (no private name is consulted)"""
    b = anchor(chk, lib, BUILD, rule)
    if b is None:
        return
    n = 0
    for p in (CS + '::new', CS + '::extrapolate', CS + '::boundary'):
        if anchor(chk, lib, p, rule) is None:
            return
    for flag in flags:
        for bc in ('NotAKnot', 'Natural', 'Clamped', 'Periodic', 'Individual'):
          for order in ('eb', 'be', 'Eb', 'bE'):
            want = 'No' if not flag else ('Periodic' if bc == 'Periodic' else 'Yes')
            try:
                s = spline_builder(lib, flag, bc, order)
            except (Unsupported, Diverge) as ex:
                chk.ob(rule, "CubicSpline::new / extrapolate / boundary are plain configuration steps: %s" % ex, False, ex.where, 'setters-%s-%s-%s' % (flag, bc, order))
                continue
            try:
                st = spline_finished(lib, s)
                got = behaviour_class(lib, st)
                n += 1
                chk.ob(rule, "CubicSpline configured (setter order %s) with extrapolate=%s, boundary=%s: the built strategy %s out-of-range queries (got: %s)" %
                       (order, flag, bc, WANT[want], got), got == WANT[want], b['span'], 'select-%s-%s-%s' % (flag, bc, order))
            except (Unsupported, Diverge) as ex:
                chk.ob(rule, "CubicSpline::build is a decision over (flag, boundary kind): %s" % ex, False, ex.where, 'select-%s-%s-%s' % (flag, bc, order))
    return n


def run(chk):
    lib = load(chk)
    chk.technique = "finite guard tables + comparison of extracted kernels across flag values (rational-function normal forms)"
    chk.rule('R6.1', "flag non-interference: for an in-range query the written value and the lookup are the same expression for every value of the extrapolation flag")
    chk.rule('R6.2', "with extrapolation on no finite query (below, at, inside, above the range) is rejected")
    chk.rule('R6.3', "outside the range the written value is the same polynomial expression in the unmodified query as inside "
                     "(no clamping of the query; the bracket index is whatever the lookup returns - its clamping is C11)")
    chk.rule('R6.4', "CubicSpline::build maps (flag, boundary) to Extrapolate::{No, No, Yes, Periodic}")
    chk.rule('R6.5', "the query entry points (scalar, single, array, *_into; rank-1 fast path and general path; 1-D and 2-D) add no rejection of their own: "
                     "with well-shaped arguments and a strategy that answers they return Ok after handing every element to the strategy")
    chk.assumptions += ["'up to rounding' is not decided; continuity across the range ends follows from R6.3 + C11's index clamps over the reals"]
    for p in (LIN, SPL, BIL):
        if anchor(chk, lib, p, 'R6.1') is None:
            return
    n = guard_tables(chk, lib, 'R6.2', want_off=False, want_on=True)
    q = Rat.atom('q')
    # Linear
    ref = {}
    for ext in (False, True):
        for rel in FINITE:
            if not ext and not in_range(rel):
                continue
            o = run_linear(lib, ext, rel)
            ref[('L', ext, rel)] = o
    for ext in ('No', 'Yes', 'Periodic'):
        for rel in FINITE:
            if ext == 'No' and not in_range(rel):
                continue
            ref[('S', ext, rel)] = run_spline(lib, ext, rel)
    for ext in (False, True):
        for rx in FINITE:
            for ry in FINITE:
                if not ext and not (in_range(rx) and in_range(ry)):
                    continue
                ref[('B', ext, rx, ry)] = run_bilinear(lib, ext, rx, ry)

    def sig(o):
        if o.kind != 'ok' or len(o.m.writes) != 1:
            return None
        return (o.m.writes[0][1], tuple((a, str(v)) for a, v in o.m.lookups))

    def same(a, b):
        return a is not None and b is not None and a[0] == b[0] and a[1] == b[1]

    base_l = sig(ref[('L', True, 'inside')])
    base_s = sig(ref[('S', 'Yes', 'inside')])
    base_b = sig(ref[('B', True, 'inside', 'inside')])
    chk.ob('R6.1', "reference kernels (extrapolation on, query inside) were extracted", None not in (base_l, base_s, base_b), key='reference')
    if None in (base_l, base_s, base_b):
        return
    for k, o in ref.items():
        fam = k[0]
        base = {'L': base_l, 'S': base_s, 'B': base_b}[fam]
        name = {'L': 'Linear', 'S': 'CubicSpline', 'B': 'Bilinear'}[fam]
        rels = k[2:]
        inr = all(in_range(r) for r in rels)
        span = lib.body({'L': LIN, 'S': SPL, 'B': BIL}[fam])['span']
        flag_off = k[1] in (False, 'No')
        if inr and flag_off and sig(o) is None:
            continue        # an in-range query rejected with extrapolation off is C05's subject
        if inr:
            chk.ob('R6.1', "%s flag=%s, query %s: same lookup and same lane expression for every value of the flag" % (name, k[1], rels),
                   same(sig(o), base), span, 'noninterf-%s-%s-%s' % (name, k[1], rels))
        elif not (fam == 'S' and k[1] == 'Periodic'):
            chk.ob('R6.3', "%s flag=%s, query %s (outside): same polynomial expression in the unmodified query as inside the range" %
                   (name, k[1], rels), same(sig(o), base), span, 'continue-%s-%s-%s' % (name, k[1], rels))
    chk.note('kernel_runs_compared', len(ref))
    chk.floor('R6.1', 'kernel runs compared', len(ref), 8 + 13 + 34)
    n4 = extrapolate_selection(chk, lib, 'R6.4') or 0
    chk.floor('R6.4', 'selection table entries', n4, 40)
    from . import entry
    n5 = entry.never_rejects_itself(chk, lib, 'R6.5')
    chk.floor('R6.5', 'entry-point runs with an answering strategy', n5, 14)
    chk.sample({"linear lane expression (all flags, all finite scenarios)": str(base_l[0])})
    chk.exhaustive = True
    chk.explanation = ("For each strategy the lane expression and the lookup argument were extracted for every (flag, finite "
                       "range scenario); they are the same rational function of the unmodified query in all of them, no scenario with the "
                       "flag on ends in Err, and the Extrapolate selection table of CubicSpline::build is as specified. Over the reals.")
