"""C16 - polynomials of the strategy's degree are reproduced exactly."""
from .common import *
from . import spline as S
from .c01 import calc_frac_identity, linear_wiring, two_point
from .c04 import bilinear_identity
from ..kernels import *
from ..poly import Rat

LEVEL = 'other'


def run(chk):
    lib = load(chk)
    chk.technique = "polynomial identities on extracted kernels and boundary/interior row functionals (reproduction of symbolic polynomials)"
    chk.rule('R16.1', "Linear reproduces affine data, Bilinear reproduces bilinear data - inside the range and extrapolated (same expression)")
    chk.rule('R16.2', "for y = p(x), k = p'(x), p a symbolic cubic: every interior row, both NotAKnot rows, FirstDeriv(p'(end)) and SecondDeriv(p''(end)) rows have zero residual; "
                      "Natural rows have zero residual exactly when p''(end) = 0 (straight lines qualify); the 3-point NotAKnot arm reproduces parabolas")
    chk.rule('R16.3', "Hermite consistency: with those y, k the coefficients a, b and the piece formula give P(q) = p(q) for every q, inside and outside the interval")
    chk.assumptions += ["the slopes p'(x) are the unique solution of the (diagonally dominant) system - textbook; rounding NOT decided"]
    A = Rat.atom
    # R16.1 linear
    for ext, rels in ((True, ('first', 'inside', 'last', 'below', 'above')),):
        for rel in rels:
            o = run_linear(lib, ext, rel)
            if not chk.ob('R16.1', "Linear ext=%s q=%s computes" % (ext, rel), o.kind == 'ok' and len(o.m.writes) == 1, '', 'lin-%s-%s' % (ext, rel)):
                continue
            i = A('i_x')
            al, be = A('alpha'), A('beta')
            v = o.m.writes[0][1].subs({str(data_atom('y', [i])): al + be * ax_atom('x', i), str(data_atom('y', [i + 1])): al + be * ax_atom('x', i + 1)})
            chk.ob('R16.1', "Linear (ext=%s, q %s): affine data alpha + beta x is returned as alpha + beta q" % (ext, rel), v == al + be * A('q'),
                   lib.body(LIN)['span'], 'lin-affine-%s-%s' % (ext, rel))
    for ext, rx, ry in ((True, 'inside', 'inside'), (True, 'below', 'above'), (True, 'above', 'inside')):
        bilinear_identity(chk, lib, 'R16.1', rx, ry, ext)
    # R16.2 rows
    for p in (S.SFK, S.CALC):
        if anchor(chk, lib, p, 'R16.2') is None:
            return
    n1 = S.general_arm(chk, lib, 'R16.2', 'R16.2', None)
    n2 = S.general_arm(chk, lib, 'R16.2', 'R16.2', 3)
    chk.floor('R16.2', 'systems checked for cubic reproduction', n1 + n2, 49)
    S.check_toplevel_kinds(chk, lib, 'R16.2')
    S.check_three_point(chk, lib, 'R16.2')
    S.check_hermite(chk, lib, 'R16.3', 'R16.3', 'R16.3')
    chk.rule('R16.4', "lanes holding different polynomials: with per-lane (Individual) boundaries every lane is solved with its OWN boundary element (dispatcher rules shared with C08)")
    S.check_dispatcher(chk, lib, 'R16.4')
    # ... and the boundary value reaches the dispatcher at all: calc_coefficients hands each public boundary kind to one solve of its own kind and an Individual array,
    # unchanged, to the per-lane dispatcher (round 8: a `mem::discriminant` shortcut in calc_coefficients gave every all-Mixed lane the boundary of lane 0)
    S.check_dispatch(chk, lib, 'R16.4', 'R16.4')
    # extrapolated evaluation is the same expression (C06) - restated here for the spline
    base = run_spline(lib, 'Yes', 'inside')
    for rel in ('below', 'above'):
        o = run_spline(lib, 'Yes', rel)
        same = base.kind == o.kind == 'ok' and o.m.writes[0][1] == base.m.writes[0][1]
        chk.ob('R16.3', "CubicSpline with extrapolation, query %s the range: the same piece expression (hence p(q) for cubic data)" % rel, same,
               lib.body(SPL)['span'], 'spline-extrapolated-' + rel)
    chk.explanation = ("Reproduction of polynomials is decided as identities: the Linear/Bilinear lane expressions return alpha+beta q / p(qx,qy) for symbolic affine / "
                       "bilinear data; for a symbolic cubic p, y = p(x) and k = p'(x) satisfy every interior, NotAKnot, FirstDeriv(p') and SecondDeriv(p'') row with zero "
                       "residual (Natural only with p'' = 0), and the extracted a, b and piece formula then give P = p everywhere. Reported D1 before its fix.")
