"""C12 - monotonic_prop classifies every vector correctly and never calls NaN data rising."""
from .common import *
from ..absint import *
from ..absint import _vkey

LEVEL = 'proof'

MON = 'Monotonic'
RELS = ('lt', 'eq', 'gt', 'un')


class StopRun(Exception):
    pass


class MonoModel(Model):
    """array `self` is opaque; its elements are only ever compared.  The relation between the two
    elements of the current window is the scenario."""

    def __init__(self, n_scenario):
        super().__init__()
        self.n = n_scenario          # 0, 1 or 'many'
        self.rel = None
        self.fold = None             # captured (init, closure)
        self.fold_result = None      # value try_fold should return in output runs
        self.loopinfo = None         # captured (pattern, body, frame, carried variable) when the fold is written as a `for` loop
        self.loop_result = None      # state the carried variable holds after the loop in output runs
        self.value_uses = []

    def compare(self, op, a, b, e):
        if isinstance(a, Num) and isinstance(b, Num):
            an, bn = a.r.atoms(), b.r.atoms()
            # length tests
            if an == {'len'} and b.const() is not None and str(a.r) == 'len':
                if self.n == 'many':
                    c = b.const()
                    if c <= 1:
                        return {'lt': False, 'le': False, 'gt': True, 'ge': True, 'eq': False, 'ne': True}[op]
                    raise Unsupported("length compared with %s (only `len <= 1`-style tests are tabulated)" % c, e)
            sa, sb = str(a.r), str(b.r)
            if {sa, sb} == {'w0', 'w1'}:
                rel = self.rel
                if sa == 'w1':   # operands swapped
                    rel = {'lt': 'gt', 'gt': 'lt'}.get(rel, rel)
                table = {'lt': {'lt': True, 'le': True, 'gt': False, 'ge': False, 'eq': False, 'ne': True},
                         'eq': {'lt': False, 'le': True, 'gt': False, 'ge': True, 'eq': True, 'ne': False},
                         'gt': {'lt': False, 'le': False, 'gt': True, 'ge': True, 'eq': False, 'ne': True},
                         'un': {'lt': False, 'le': False, 'gt': False, 'ge': False, 'eq': False, 'ne': True}}
                return table[rel][op]
        return super().compare(op, a, b, e)

    def call(self, name, cal, args, e, frame):
        last = name.split('::')[-1]
        a0 = deref_all(args[0]) if args else None
        if cal.get('crate') == 'ndarray' or 'ndarray::' in (cal.get('resolved') or ''):
            if last == 'len' and isinstance(a0, Obj) and a0.kind == 'vec':
                return Num(self.n) if self.n != 'many' else Num(Rat.atom('len'))
            if last == 'windows' and isinstance(a0, Obj) and a0.kind == 'vec':
                w = deref_all(args[1])
                return Obj('windows', of=a0, size=w)
            if last == 'into_iter' and isinstance(a0, Obj) and a0.kind == 'windows':
                return Obj('windows_iter', of=a0)
            if last == 'iter' and isinstance(a0, Obj) and a0.kind == 'vec':
                return Obj('veciter', off=0)
            if last in ('index',) and isinstance(a0, Obj) and a0.kind == 'vec' and getattr(self, 'index_base', None) is not None:
                idx = deref_all(args[1])
                off = (idx.r - Rat.atom('i')).as_poly().const_value() if isinstance(idx, Num) and (idx.r - Rat.atom('i')).is_poly() and \
                    (idx.r - Rat.atom('i')).as_poly().is_const() else None
                if off is not None and off - self.index_base in (0, 1):
                    return Ref(ValPlace(Num(Rat.atom('w%d' % int(off - self.index_base)))))
                raise Unsupported("element %r read in a loop over neighbouring positions" % (idx,), e)
            if last in ('index',) and isinstance(a0, Obj) and a0.kind == 'window':
                i = deref_all(args[1]).const()
                if i in (0, 1):
                    return Ref(ValPlace(Num(Rat.atom('w%d' % i))))
                raise Unsupported("window element %s" % i, e)
        if name == 'std::iter::IntoIterator::into_iter' and isinstance(a0, Obj) and a0.kind in ('windows', 'windows_iter'):
            return Obj('windows_iter', of=a0 if a0.kind == 'windows' else a0.d['of'])
        if name == 'std::iter::IntoIterator::into_iter' and isinstance(a0, Obj) and a0.kind in ('veciter', 'pairs'):
            return a0
        if name == 'std::iter::Iterator::skip' and isinstance(a0, Obj) and a0.kind == 'veciter':
            k = deref_all(args[1])
            if isinstance(k, Num) and k.const() is not None:
                return Obj('veciter', off=a0.d['off'] + int(k.const()))
            raise Unsupported("skip by a non-literal count", e)
        if name == 'std::iter::Iterator::zip' and isinstance(a0, Obj) and a0.kind == 'veciter':
            b0 = deref_all(args[1])
            if isinstance(b0, Obj) and b0.kind == 'veciter' and sorted((a0.d['off'], b0.d['off'])) == [0, 1]:
                return Obj('pairs', order=(a0.d['off'], b0.d['off']))
            raise Unsupported("zip of something other than (iter(), iter().skip(1)) of the vector", e)
        if name == 'std::iter::Iterator::try_fold':
            it = deref_all(args[0])
            self.element_of(it, e)
            self.fold = (args[1], args[2])
            if self.fold_result is None:
                raise StopRun()
            return self.fold_result
        return NotImplemented


def _element_of(self, it, e):
    """the abstract element (a pair of neighbours w0, w1) the iterator `it` yields; fixes self.elem"""
    if isinstance(it, Obj) and it.kind == 'windows':
        it = Obj('windows_iter', of=it)
    if isinstance(it, Obj) and it.kind == 'windows_iter':
        size = it.d['of'].d['size']
        if not (isinstance(size, Num) and size.const() == 2):
            raise Unsupported("window size is not 2", e)
        self.elem = lambda: Ref(ValPlace(Obj('window')))
        self.elem_by_value = lambda: Obj('window')
        return
    if isinstance(it, Obj) and it.kind == 'pairs':
        o = it.d['order']
        self.elem = lambda: Tup([Ref(ValPlace(Num(Rat.atom('w%d' % o[0])))), Ref(ValPlace(Num(Rat.atom('w%d' % o[1]))))])
        self.elem_by_value = self.elem
        return
    if isinstance(it, Enum) and it.adt == 'std::ops::Range':
        # positions i with the neighbours read by index: 0..len-1 reading (i, i+1), or 1..len reading (i-1, i)
        s_, e_ = deref_all(it.fields['start']), deref_all(it.fields['end'])
        if isinstance(s_, Num) and isinstance(e_, Num) and s_.const() in (0, 1) and str(e_.r - s_.r) == str(Rat.atom('len') - 1):
            self.index_base = 0 if s_.const() == 0 else -1
            self.elem = lambda: Num(Rat.atom('i'))
            self.elem_by_value = self.elem
            return
        raise Unsupported("loop over positions %r .. %r is not the range of neighbouring pairs of the vector" % (s_, e_), e)
    raise Unsupported("fold / loop over something other than the neighbouring pairs of the vector "
                      "(windows(2) or iter().zip(iter().skip(1))): %r" % (it,), e)


MonoModel.element_of = _element_of


def _mono_for_loop(self, iterable, pat, body, frame, e):
    it = deref_all(iterable)
    self.element_of(it, e)
    if self.loop_result is not None:
        for var, val in self.loop_result.items():
            frame.assign(var, val)
        return Unit()
    self.loopinfo = (pat, body, frame, LoopState.of(frame))
    raise StopRun()


class LoopState(dict):
    """the loop-carried state, found semantically: the values of all data-valued variables visible at the loop (a variable
    the body never changes is a constant component).  Variables are updated by assignment, through `&mut self` methods, ..."""
    @staticmethod
    def of(frame):
        import copy
        chain = []
        f = frame
        while f is not None:
            chain.append(f)
            f = f.parent
        st = LoopState()
        for f in reversed(chain):
            for var, v in f.vars.items():
                if isinstance(v, (Enum, B, Num, Tup)) and _plain(v):
                    st[var] = copy.deepcopy(v)
        return st

    def key(self):
        return tuple(sorted((var, _vkey(v)) for var, v in self.items()))

    def __repr__(self):
        return "{%s}" % ', '.join('%s=%r' % (var.split('#')[0], v) for var, v in sorted(self.items()))


def _plain(v):
    if isinstance(v, Tup):
        return all(_plain(x) for x in v.items)
    if isinstance(v, Enum):
        return all(_plain(x) for x in v.fields.values())
    return isinstance(v, (B, Num))


MonoModel.for_loop = _mono_for_loop


class WordModel(Model):
    """a vector of concretely known length whose neighbouring elements stand in the relations of one word over {<,=,>,unordered};
    every loop bound is concrete, so the function is evaluated as written (loops included) - on relations, never on numbers"""
    def __init__(self, word):
        super().__init__()
        self.word = list(word) if word is not None else []
        self.n = len(word) + 1 if word is not None else 0
        self.allow_opaque = False

    def elem(self, i, e):
        if not (0 <= i < self.n):
            raise Diverge("index %d out of bounds of a vector of length %d" % (i, self.n), e)
        return Ref(ValPlace(Num(Rat.atom('v%d' % i))))

    def compare(self, op, a, b, e):
        if isinstance(a, Num) and isinstance(b, Num):
            sa, sb = str(a.r), str(b.r)
            ma, mb = re.match(r'^v(\d+)$', sa), re.match(r'^v(\d+)$', sb)
            if ma and mb:
                i, j = int(ma.group(1)), int(mb.group(1))
                if abs(i - j) != 1:
                    raise Unsupported("comparison of the non-neighbouring elements %d and %d" % (i, j), e)
                rel = self.word[min(i, j)]
                if i > j:
                    rel = {'lt': 'gt', 'gt': 'lt'}.get(rel, rel)
                table = {'lt': {'lt': True, 'le': True, 'gt': False, 'ge': False, 'eq': False, 'ne': True},
                         'eq': {'lt': False, 'le': True, 'gt': False, 'ge': True, 'eq': True, 'ne': False},
                         'gt': {'lt': False, 'le': False, 'gt': True, 'ge': True, 'eq': False, 'ne': True},
                         'un': {'lt': False, 'le': False, 'gt': False, 'ge': False, 'eq': False, 'ne': True}}
                return table[rel][op]
        return super().compare(op, a, b, e)

    def call(self, name, cal, args, e, frame):
        last = name.split('::')[-1]
        a0 = deref_all(args[0]) if args else None
        nd = cal.get('crate') == 'ndarray' or 'ndarray::' in (cal.get('resolved') or '')
        if nd and isinstance(a0, Obj) and a0.kind == 'vec':
            if last in ('len', 'dim', 'len_of'):
                return Num(self.n)
            if last == 'index':
                i = deref_all(args[1])
                if isinstance(i, Num) and i.const() is not None and i.const().denominator == 1:
                    return self.elem(int(i.const()), e)
            if last == 'windows':
                w = deref_all(args[1])
                if isinstance(w, Num) and w.const() == 2:
                    return Obj('cseq', src=[Obj('cwindow', i=i) for i in range(max(0, self.n - 1))], ops=[], pos=0)
            if last == 'iter':
                return Obj('cseq', src=[self.elem(i, e) for i in range(self.n)], ops=[], pos=0)
            if last in ('first', 'last'):
                return SOME(self.elem(0 if last == 'first' else self.n - 1, e)) if self.n else NONE
            if last in ('get',):
                i = deref_all(args[1])
                if isinstance(i, Num) and i.const() is not None:
                    return SOME(self.elem(int(i.const()), e)) if 0 <= int(i.const()) < self.n else NONE
        if nd and isinstance(a0, Obj) and a0.kind == 'cwindow' and last == 'index':
            j = deref_all(args[1])
            if isinstance(j, Num) and j.const() in (0, 1):
                return self.elem(a0.d['i'] + int(j.const()), e)
        if name == 'std::iter::IntoIterator::into_iter' and isinstance(a0, Obj) and a0.kind == 'cseq':
            return a0
        return NotImplemented

    def plain_loop(self, body, frame, e):
        for _ in range(4 * self.n + 16):
            try:
                self.interp.eval(body, Frame(frame))
            except BreakEx as b:
                return b.v if b.v is not None else Unit()
            except ContinueEx:
                continue
        raise Unsupported("loop does not end within 4 len + 16 iterations on a vector of length %d" % self.n, e)


def _spec_class(word):
    lt, eq, gt = 'lt' in word, 'eq' in word, 'gt' in word
    if 'un' in word:
        return None          # only "not Rising" is required (and, by symmetry of the statement, nothing else is decided here)
    if lt and gt:
        return 'N'
    if lt:
        return 'Rn' if eq else 'Rs'
    if gt:
        return 'Fn' if eq else 'Fs'
    return 'N'


def _class_of(o):
    o = deref_all(o)
    if isinstance(o, Enum) and o.adt == MON:
        if o.variant == 'NotMonotonic':
            return 'N'
        st = deref_all(o.fields.get('strict'))
        if isinstance(st, B):
            return ('R' if o.variant == 'Rising' else 'F') + ('s' if st.b else 'n')
    return 'other:%r' % (o,)


def bounded_words(chk, lib, body, why, maxlen=None):
    """fallback when no automaton can be extracted (a formulation with several phases, recursion, manual indices ...): the function is
    evaluated, as written, on every word of neighbour relations up to a bounded length.  Exhaustive up to that length only - weaker than
    the automaton proof, and reported as such."""
    import itertools
    L = maxlen or (7 if chk.tier == 'thorough' else 5)
    chk.rule('R12.3', "bounded fallback (only when the automaton of R12.1 cannot be extracted): for every word of neighbour relations over "
                      "{<,=,>,unordered} up to length %d, evaluating monotonic_prop as written - on relations, no numbers - gives the reference class, "
                      "and never Rising on a word containing an unordered pair" % L)
    chk.note('c12_route', 'bounded words up to length %d, because: %s' % (L, why))
    chk.level = 'exploration'      # bounded, not the proof the automaton route gives
    vec = Obj('vec')
    n_words = bad = 0
    first_bad = None
    words = [None, []]
    for l in range(1, L + 1):
        words += [list(w) for w in itertools.product(RELS, repeat=l)]
    branch_log = set()
    for w in words:
        m = WordModel(w)
        m.branch_log = branch_log
        it = Interp(lib, m)
        n_words += 1
        try:
            out = _class_of(it.call_def(body['def'], [Ref(ValPlace(vec))]))
        except Diverge as ex:
            out = 'panic: %s' % ex
        except Unsupported as ex:
            chk.ob('R12.3', "monotonic_prop evaluates on the word %s: %s" % (w, ex), False, ex.where or body['span'], 'bounded-unrecognised')
            return
        if w is None or len(w) == 0:
            ok = out == 'N'
        elif 'un' in w:
            ok = out in ('N', 'Fs', 'Fn', 'Rn') and not out.startswith('Rs') if False else not out.startswith('R') and not out.startswith('panic') and not out.startswith('other')
        else:
            ok = out == _spec_class(w)
        if not ok:
            bad += 1
            if first_bad is None:
                first_bad = (w, out)
    chk.ob('R12.3', "all %d words up to length %d are classified as the reference classifier does (first deviation: %s)" % (n_words, L, first_bad),
           bad == 0, body['span'], 'bounded-words')
    chk.floor('R12.3', 'words evaluated', n_words, 1000)
    # a bounded exploration says nothing about code it never executed (a path taken only on long vectors)
    from .c11 import unexecuted_branches
    dead = unexecuted_branches(lib, body, branch_log)
    chk.ob('R12.3', "every branch of the classifier is executed by some word, so the bounded exploration speaks for the whole function (never executed: %s)" %
           (', '.join(dead[:4]) or 'none'), not dead, body['span'], 'bounded-covers-all-branches')
    chk.explanation = ("monotonic_prop is written in a form from which no single fold automaton can be extracted (%s); it was instead evaluated as written on "
                       "all %d words of neighbour relations up to length %d (relations only, no numbers): bounded, not a proof for all lengths." % (why, n_words, L))


def run(chk):
    lib = load(chk)
    analyse(chk, lib)


def analyse(chk, lib, set_text=True):
    technique = ("finite decision table extracted from the typed tree (values touched only through comparisons: "
                     "4 order relations) + product construction against the reference classifier (language equivalence "
                     "for words of every length)")
    if set_text:
        chk.technique = technique
    chk.rule('R12.1', "the fold step (closure passed to try_fold) is comparison-only and total on the reachable "
                      "abstract states x {<,=,>,unordered}; the extracted automaton is language-equivalent to the "
                      "reference classifier on {<,=,>}* (product construction), and on every word containing "
                      "`unordered` its output is not Rising")
    chk.rule('R12.2', "glue: len <= 1 returns NotMonotonic; the fold runs over windows(2) of the vector itself with "
                      "a = w[0], b = w[1]; the final map_or_else/finish maps every reachable end state to the class")
    chk.assumptions += ["ndarray::ArrayBase::windows(2).into_iter() yields the consecutive pairs in index order",
                        "PartialOrd/PartialEq of the element type are consistent (exactly one of <,=,> or unordered holds)"]
    anchor_path = '<ndarray::ArrayBase as VectorExtensions>::monotonic_prop'
    body = anchor(chk, lib, anchor_path, 'R12.2')
    if body is None:
        return
    vec = Obj('vec')

    def fresh(n):
        m = MonoModel(n)
        return m, Interp(lib, m)

    # ---- R12.2 short vectors
    for n in (0, 1):
        m, it = fresh(n)
        try:
            out = it.call_def(body['def'], [Ref(ValPlace(vec))])
            ok = isinstance(out, Enum) and out.adt == MON and out.variant == 'NotMonotonic'
            chk.ob('R12.2', "vector of length %d is classified NotMonotonic (got %r)" % (n, out), ok, body['span'], 'short-%d' % n)
        except StopRun:
            chk.ob('R12.2', "vector of length %d is classified NotMonotonic before any fold (it reaches the fold, which "
                   "would end in the start state)" % n, False, body['span'], 'short-%d' % n)
        except Diverge as ex:
            chk.ob('R12.2', "vector of length %d: evaluation of the glue failed: %s" % (n, ex), False, ex.where or body['span'], 'short-%d' % n)
        except Unsupported as ex:
            return bounded_words(chk, lib, body, "the glue for short vectors is not in the automaton-extraction surface (%s)" % ex)
    # ---- discover the fold
    m, it = fresh('many')
    try:
        it.call_def(body['def'], [Ref(ValPlace(vec))])
        chk.ob('R12.2', "monotonic_prop folds over windows(2) with try_fold (no try_fold reached)", False, body['span'], 'glue-shape')
        return
    except StopRun:
        pass
    except Diverge as ex:
        chk.ob('R12.2', "unrecognised glue in monotonic_prop: %s" % ex, False, ex.where or body['span'], 'glue-shape')
        return
    except Unsupported as ex:
        return bounded_words(chk, lib, body, "no single fold / loop over the neighbouring pairs to extract an automaton from (%s)" % ex)
    loop_form = m.fold is None and m.loopinfo is not None
    if not loop_form and m.fold is None:
        chk.ob('R12.2', "monotonic_prop folds over windows(2) (neither try_fold nor a loop was reached)", False, body['span'], 'glue-shape')
        return
    if loop_form:
        lpat, lbody, lframe, init = m.loopinfo
        clo = None
    else:
        init, clo = m.fold
    init = deref_all(init)

    def fold_step(state):
        """one step of the fold on abstract state `state` under the current relation m.rel: ('ok', state') | ('err', class)"""
        if not loop_form:
            r = deref_all(it.apply(clo, [state, m.elem()]))
            if isinstance(r, Enum) and r.adt == 'std::result::Result' and r.variant == 'Ok':
                return ('ok', deref_all(r.fields['0']))
            if isinstance(r, Enum) and r.adt == 'std::result::Result' and r.variant == 'Err':
                return ('err', deref_all(r.fields['0']))
            return ('bad', r)
        fr2 = Frame()
        chain = []
        f = lframe
        while f is not None:
            chain.append(f)
            f = f.parent
        for f in reversed(chain):
            for k_, v_ in f.vars.items():
                fr2.bind(k_, v_)
        import copy as _copy
        for var_, val_ in state.items():
            fr2.bind(var_, _copy.deepcopy(val_))
        if not it.match_pat(lpat, ValPlace(m.elem()), fr2):
            raise Unsupported("loop pattern over the neighbouring pairs")
        try:
            it.eval(lbody, fr2)
            after = LoopState.of(fr2)
            return ('ok', LoopState({v_: after[v_] for v_ in state if v_ in after}))
        except ReturnEx as r:
            return ('err', deref_all(r.v))
        except BreakEx:
            # `break`: the loop ends here and the code after it maps the state reached to the class
            after = LoopState.of(fr2)
            st = LoopState({v_: after[v_] for v_ in state if v_ in after})
            m3, it3 = fresh('many')
            m3.loop_result = st
            out = deref_all(it3.call_def(body['def'], [Ref(ValPlace(vec))]))
            return ('err', out)
    chk.ob('R12.2', "fold starts in a state value (%r)" % (init,), isinstance(init, (Enum, LoopState)), body['span'], 'init-state')

    # ---- explore the automaton through the closure itself
    states = {}     # key -> value
    order = []
    trans = {}      # (key, rel) -> ('ok', key) | ('err', output key)

    def add(s):
        k = s.key()
        if k not in states:
            states[k] = s
            order.append(k)
        return k

    k0 = add(init)
    i = 0
    table_rows = []
    while i < len(order):
        if len(order) > 64:
            chk.ob('R12.1', "abstract state space stays finite (<= 64 states)", False, body['span'], 'state-explosion')
            return
        k = order[i]
        i += 1
        for rel in RELS:
            m.rel = rel
            import copy
            s = copy.deepcopy(states[k])
            try:
                kind, r = fold_step(s)
            except Diverge as ex:
                chk.ob('R12.1', "fold step on state %r, relation %s is comparison-only and total: %s" % (states[k], rel, ex),
                       False, ex.where or body['span'], 'step-%s-%s' % (states[k], rel))
                return
            except Unsupported as ex:
                return bounded_words(chk, lib, body, "the fold step is not in the automaton-extraction surface (%s)" % ex)
            if kind == 'ok' and isinstance(r, (Enum, LoopState)):
                k2 = add(r)
                trans[(k, rel)] = ('ok', k2)
                table_rows.append("%r --%s--> %r" % (states[k], rel, states[k2]))
            elif kind == 'err':
                trans[(k, rel)] = ('err', r)
                table_rows.append("%r --%s--> STOP(%r)" % (states[k], rel, r))
            else:
                chk.ob('R12.1', "fold step yields a next state or stops with a class, got %r" % (r,), False, body['span'], 'step-shape')
                return
    chk.note('abstract_states', len(order))
    chk.note('transition_entries', len(trans))
    chk.floor('R12.1', 'transition table entries', len(trans), 24)
    for row in table_rows[:12]:
        chk.sample(row)

    # ---- outputs of end states (finish)
    outputs = {}
    for k in order:
        m2, it2 = fresh('many')
        import copy
        m2.fold_result = OK(copy.deepcopy(states[k]))
        m2.loop_result = copy.deepcopy(states[k])
        try:
            out = deref_all(it2.call_def(body['def'], [Ref(ValPlace(vec))]))
            outputs[k] = out
        except Diverge:
            outputs[k] = 'panic'
        except Unsupported as ex:
            chk.ob('R12.2', "final mapping of end state %r: %s" % (states[k], ex), False, ex.where, 'finish-%r' % (states[k],))
            return
    err_map_ok = True
    for probe in (() if loop_form else (Enum(MON, 'NotMonotonic'), Enum(MON, 'Rising', {'strict': B(True)}))):
        m2, it2 = fresh('many')
        m2.fold_result = ERR(probe)
        try:
            out = deref_all(it2.call_def(body['def'], [Ref(ValPlace(vec))]))
            err_map_ok &= isinstance(out, Enum) and out.key() == probe.key()
        except (Unsupported, Diverge):
            err_map_ok = False
    chk.ob('R12.2', "a short-circuited class is returned unchanged (map_or_else identity on Err)", err_map_ok, body['span'], 'err-identity')

    def cls(o):
        if o == 'panic':
            return 'panic'
        if isinstance(o, Enum) and o.adt == MON:
            if o.variant == 'NotMonotonic':
                return 'N'
            st = o.fields.get('strict')
            if isinstance(st, B):
                return ('R' if o.variant == 'Rising' else 'F') + ('s' if st.b else 'n')
        return 'other:%r' % (o,)

    # ---- product with the reference classifier over {lt,eq,gt}
    def spec_out(sp):
        lt, eq, gt = sp
        if lt and gt:
            return 'N'
        if lt:
            return 'Rn' if eq else 'Rs'
        if gt:
            return 'Fn' if eq else 'Fs'
        return 'N'   # only ties (or empty)

    def step(node, rel):
        kind, x = node
        if kind == 'sink':
            return node
        t = trans[(x, rel)]
        if t[0] == 'ok':
            return ('st', t[1])
        return ('sink', cls(t[1]))

    def out_of(node):
        kind, x = node
        return x if kind == 'sink' else cls(outputs[x])

    seen = set()
    work = [(('st', k0), (False, False, False), '')]
    pairs = 0
    while work:
        node, sp, word = work.pop()
        if (node, sp) in seen:
            continue
        seen.add((node, sp))
        if any(sp):
            pairs += 1
            io, so = out_of(node), spec_out(sp)
            chk.ob('R12.1', "after a word with relations %s (e.g. '%s') the implementation answers %s, the reference %s" %
                   (_spname(sp), word, io, so), io == so, body['span'], 'lang-%s' % _spname(sp))
        for rel in ('lt', 'eq', 'gt'):
            sp2 = (sp[0] or rel == 'lt', sp[1] or rel == 'eq', sp[2] or rel == 'gt')
            work.append((step(node, rel), sp2, (word + ' ' + rel).strip()[-60:]))
    chk.note('product_states', len(seen))
    # ---- NaN: words over {lt,eq,gt,un} containing un never yield Rising
    seen2 = set()
    work = [(('st', k0), False, '')]
    nan_nodes = 0
    while work:
        node, un, word = work.pop()
        if (node, un) in seen2:
            continue
        seen2.add((node, un))
        if un:
            nan_nodes += 1
            io = out_of(node)
            chk.ob('R12.1', "a vector with an unordered (NaN) pair (e.g. relations '%s') is never classified Rising (got %s)" %
                   (word, io), not io.startswith('R'), body['span'], 'nan-%s-%s' % (node[0], node[1] if node[0] == 'sink' else cls(outputs[node[1]]) + str(order.index(node[1]))))
        for rel in RELS:
            work.append((step(node, rel), un or rel == 'un', (word + ' ' + rel).strip()[-60:]))
    chk.note('nan_product_states', nan_nodes)
    if not set_text:
        return
    chk.exhaustive = True
    chk.explanation = (
        "The fold step closure of monotonic_prop touches the two window elements only through comparisons, so its "
        "behaviour is a finite table: %d abstract states x 4 order relations = %d entries, extracted from the typed tree "
        "by table lookup (no execution). The resulting automaton is compared with the reference classifier by product "
        "construction (%d product states, all words of every length), and for every word containing an unordered pair "
        "(%d product states) the output is not Rising. The glue (len<=1, windows(2), final mapping) is checked "
        "structurally." % (len(order), len(trans), len(seen), nan_nodes))


def _spname(sp):
    return '{' + ','.join(n for n, f in zip(('<', '=', '>'), sp) if f) + '}'
