"""C10 - build() accepts exactly the valid inputs and reports the rest as BuilderError."""
import copy, itertools
from .common import *
from ..absint import *
from ..bmodel import *
from .. import layout

LEVEL = 'other'
KIND_OF = {'rank': 'ShapeError', 'short': 'NotEnoughData', 'len': 'ShapeError', 'mono': 'Monotonic'}


def builder_value(lead, m):
    data = Obj('ndarr', name='data', role='data')
    f = {'x': Obj('ndarr', name='x', role='axis'), 'data': data, 'strategy': Obj('strategy_builder')}
    if lead == 2:
        f['y'] = Obj('ndarr', name='y', role='axis')
    adt = 'Interp1DBuilder' if lead == 1 else 'Interp2DBuilder'
    from .. import layout
    bv = layout.make(adt, **f)
    bv.parts = f          # by role, whatever the fields are called
    return bv


def scenarios(lead, thorough):
    axes = ['x'] if lead == 1 else ['x', 'y']
    ndims = [0, 'big'] if lead == 1 else [0, 1, 'big']
    monos = list(MONO_VALUES)
    for nd in ndims:
        for short in itertools.product((False, True), repeat=lead):
            for lens in itertools.product((True, False), repeat=lead):
                for mono in itertools.product(monos, repeat=lead):
                    for build in ('ok', 'err'):
                        yield {'ndim': nd, 'ndim_min': lead, 'short': list(short), 'len_ok': dict(zip(axes, lens)),
                               'mono': dict(zip(axes, mono)), 'build': build}


def violated(lead, scn):
    v = set()
    if scn['ndim'] != 'big':
        v.add('rank')
        return v          # other requirements are not even defined
    if any(scn['short']):
        v.add('short')
    if not all(scn['len_ok'].values()):
        v.add('len')
    if any(m != 'Rs' for m in scn['mono'].values()):
        v.add('mono')
    return v


def run_build(lib, lead, scn):
    path = ('Interp1DBuilder::build' if lead == 1 else 'Interp2DBuilder::build')
    b = lib.body(path)
    m = BModel(copy.deepcopy(scn))
    it = Interp(lib, m)
    bv = builder_value(lead, m)
    try:
        out = deref_all(it.call_def(b['def'], [bv]))
        return m, bv, 'return', out
    except Diverge as d:
        return m, bv, 'panic', d
    except Unsupported as u:
        return m, bv, 'unsupported', u


def run(chk):
    lib = load(chk)
    thorough = chk.tier == 'thorough'
    chk.technique = "complete decision table of the builders: every combination of the finitely many requirement outcomes is evaluated on the typed tree by lookup"
    chk.rule('R10.1', "build() reaches the strategy's own build (and Ok) exactly when every requirement holds: rank >= K, each "
                      "interpolated axis >= Strat::MINIMUM_DATA_LENGHT, each axis array as long as its data axis, monotonic_prop == Rising{strict:true}")
    chk.rule('R10.2', "otherwise build() returns Err whose kind matches one of the violated requirements, never panics, and never calls the strategy")
    chk.rule('R10.3', "spline: a per-lane boundary array is checked against (1, trailing dims) and Periodic data against equal first/last rows before any solve; strategy errors are returned unchanged")
    chk.rule('R10.4', "constructors and setters never panic for any data rank (no unguarded index into shape())")
    chk.assumptions += ["monotonic_prop classifies correctly and never returns Rising for NaN data (C12)"]
    n = 0
    for lead in (1, 2):
        path = ('Interp1DBuilder::build' if lead == 1 else 'Interp2DBuilder::build')
        b = anchor(chk, lib, path, 'R10.1')
        if b is None:
            continue
        for scn in scenarios(lead, thorough):
            n += 1
            m, bv, outcome, out = run_build(lib, lead, scn)
            viol = violated(lead, scn)
            key = '%dd-ndim=%s,short=%s,len=%s,mono=%s,build=%s' % (lead, scn['ndim'], scn['short'], sorted(scn['len_ok'].items()),
                                                                   sorted(scn['mono'].items()), scn['build'])
            if outcome == 'unsupported':
                chk.ob('R10.1', "build() is a decision over the requirement table: %s" % out, False, out.where, 'unrecognised-%dd-%s' % (lead, str(out.why)[:60]))
                continue
            if outcome == 'panic':
                chk.ob('R10.2', "%s: build() must not panic (%s)" % (key, out), False, out.where, key + '-panic')
                continue
            if not viol:
                ok_call = len(m.builds) == 1 and m.builds[0]['self'] is bv.parts['strategy'] and \
                    m.builds[0]['args'][:lead] == [bv.parts[a] for a in (['x'] if lead == 1 else ['x', 'y'])] and m.builds[0]['args'][-1] is bv.parts['data']
                chk.ob('R10.1', "%s: valid input reaches the strategy's build exactly once with the builder's own axes and data" % key,
                       ok_call, b['span'], key + '-build-called')
                if scn['build'] == 'ok':
                    good = isinstance(out, Enum) and out.variant == 'Ok'
                    if good:
                        ip = deref_all(out.fields['0'])
                        IA = 'Interp1D' if lead == 1 else 'Interp2D'
                        good = isinstance(ip, Enum) and layout.part(ip, IA, 'data') is bv.parts['data'] and layout.part(ip, IA, 'x') is bv.parts['x'] and \
                            layout.part(ip, IA, 'strategy') is m.finished and (lead == 1 or layout.part(ip, IA, 'y') is bv.parts['y'])
                    chk.ob('R10.1', "%s: returns Ok(interpolator made of the validated axes, data and the finished strategy)" % key, good, b['span'], key + '-ok')
                else:
                    same = isinstance(out, Enum) and out.variant == 'Err' and deref_all(out.fields['0']) is m.err_token
                    chk.ob('R10.3', "%s: an error of the strategy's build is returned unchanged" % key, same, b['span'], key + '-err-identity')
            else:
                kinds = {KIND_OF[v] for v in viol}
                got = None
                if isinstance(out, Enum) and out.variant == 'Err':
                    er = deref_all(out.fields['0'])
                    got = er.variant if isinstance(er, Enum) else None
                chk.ob('R10.2', "%s: invalid input (%s) -> Err of kind in %s without calling the strategy (got %s, %d strategy calls)" %
                       (key, sorted(viol), sorted(kinds), got, len(m.builds)), got in kinds and not m.builds, b['span'], key + '-err-kind')
    chk.note('builder_scenarios', n)
    chk.floor('R10.1', 'builder scenarios evaluated', n, 80 + 3 * 4 * 4 * 25 * 2)
    # R10.4 constructors / setters
    nc = 0
    for lead, path in ((1, 'Interp1DBuilder::new'), (2, 'Interp2DBuilder::new'),
                       (1, 'Interp1D::builder'), (2, 'Interp2D::builder')):
        b = anchor(chk, lib, path, 'R10.4')
        if b is None:
            continue
        for nd in ([0, 1, 'big'] if lead == 2 else [0, 'big']):
            m = BModel({'ndim': nd, 'ndim_min': lead})
            it = Interp(lib, m)
            data = Obj('ndarr', name='data', role='data')
            nc += 1
            try:
                out = deref_all(it.call_def(b['def'], [data]))
                ok = isinstance(out, Enum) and layout.part(out, 'Interp1DBuilder' if lead == 1 else 'Interp2DBuilder', 'data') is data
                chk.ob('R10.4', "%s with data of rank %s returns a builder holding the data (no panic)" % (path, nd), ok, b['span'], 'ctor-%s-%s' % (path, nd))
            except Diverge as d:
                chk.ob('R10.4', "%s with data of rank %s must not panic: %s" % (path, nd, d), False, d.where, 'ctor-%s-%s' % (path, nd))
            except Unsupported as u:
                chk.ob('R10.4', "%s is a plain constructor: %s" % (path, u), False, u.where, 'ctor-%s-%s' % (path, nd))
    for lead, path, field in ((1, 'Interp1DBuilder::x', 'x'), (1, 'Interp1DBuilder::strategy', 'strategy'),
                              (2, 'Interp2DBuilder::x', 'x'), (2, 'Interp2DBuilder::y', 'y'),
                              (2, 'Interp2DBuilder::strategy', 'strategy')):
        b = anchor(chk, lib, path, 'R10.4')
        if b is None:
            continue
        m = BModel({'ndim': 'big', 'ndim_min': lead})
        it = Interp(lib, m)
        bv = builder_value(lead, m)
        new = Obj('ndarr', name='new_' + field, role='axis') if field != 'strategy' else Obj('new_strategy')
        nc += 1
        try:
            out = deref_all(it.call_def(b['def'], [bv, new]))
            BA = 'Interp1DBuilder' if lead == 1 else 'Interp2DBuilder'
            ok = isinstance(out, Enum) and layout.part(out, BA, field) is new and all(layout.part(out, BA, k) is v for k, v in bv.parts.items() if k != field)
            chk.ob('R10.4', "setter %s replaces exactly its field and keeps the others" % path, ok, b['span'], 'setter-' + path)
        except (Diverge, Unsupported) as ex:
            chk.ob('R10.4', "setter %s is a plain field update: %s" % (path, ex), False, ex.where, 'setter-' + path)
    chk.floor('R10.4', 'constructor/setter runs', nc, 2 + 3 + 2 + 3 + 5)
    from . import spline
    spline.build_checks(chk, lib, 'R10.3')
    # 'strictly increasing (hence NaN-free)': the classifier the builders rely on never calls NaN data Rising (shared with C12)
    from . import c12
    c12.analyse(chk, lib, set_text=False)
    chk.exhaustive = True
    chk.sample({"scenario": "2d ndim=big short=[False, True] len=x ok,y bad mono=x Rs,y N -> Err(NotEnoughData|ShapeError|Monotonic)"})
    chk.explanation = ("build() of both builders touches its inputs only through finitely many yes/no requirement tests, so its behaviour is a "
                       "finite table: %d combinations (rank class x too-short x length-mismatch x monotonic class per axis x strategy "
                       "result) were evaluated. Exactly the all-valid rows reach the strategy; every other row returns an Err of a "
                       "matching kind; no row panics - including rank-0/1 data in the constructors (defect D4, fixed)." % n)
