"""C05 - without extrapolation a query is answered iff it lies in the closed axis range."""
from .common import *
from ..kernels import *

LEVEL = 'other'
EXPECT = {'below': False, 'first': True, 'inside': True, 'last': True, 'above': False, 'nan': False}


def range_tables(chk, lib, rule='R5.1'):
    """truth tables of the three range predicates over the 6 order scenarios"""
    preds = [('Interp1D::is_in_range', 'x', lambda s: interp1d_obj(Unit())),
             ('Interp2D::is_in_x_range', 'x', lambda s: interp2d_obj(Unit())),
             ('Interp2D::is_in_y_range', 'y', lambda s: interp2d_obj(Unit()))]
    n = 0
    for path, axis, mk in preds:
        b = anchor(chk, lib, path, rule)
        if b is None:
            continue
        row = []
        for rel in REL6:
            m = KModel({'queries': {'q': axis}, 'rel_' + axis: rel})
            it = Interp(lib, m)
            try:
                out = deref_all(it.call_def(b['def'], [Ref(ValPlace(mk(None))), Num(Rat.atom('q'))]))
                got = out.b if isinstance(out, B) else None
                tests = sorted({(t[0], t[1]) for t in m.range_tests})
                ok = got == EXPECT[rel] and (got is False or len(tests) == 2 or rel not in ('first', 'inside', 'last'))
                chk.ob(rule, "%s(q) with q %s the range of axis %s: expected %s, table says %s (endpoints compared: %s)" %
                       (path.split('::')[-1], _relname(rel), axis, EXPECT[rel], got, tests), got == EXPECT[rel],
                       b['span'], '%s-%s' % (path.split('::')[-1], rel))
                if EXPECT[rel]:
                    chk.ob(rule, "%s: an accepted query was compared with both the first and the last value of axis %s" %
                           (path.split('::')[-1], axis), tests == [(axis, 'first'), (axis, 'last')], b['span'],
                           '%s-%s-both-ends' % (path.split('::')[-1], rel))
                row.append(got)
                n += 1
            except (Unsupported, Diverge) as ex:
                chk.ob(rule, "%s is a pure comparison of the query with the end values of axis %s: %s" %
                       (path.split('::')[-1], axis, ex), False, ex.where or b['span'], '%s-%s' % (path.split('::')[-1], rel))
        chk.sample({path.split('::')[-1]: dict(zip(REL6, row))})
    return n


def _relname(rel):
    return {'below': 'below', 'first': 'equal to the first value of', 'inside': 'strictly inside',
            'last': 'equal to the last value of', 'above': 'above', 'nan': 'unordered (NaN) w.r.t.'}[rel]


def guard_tables(chk, lib, rule, want_off=True, want_on=False):
    """decision tables of the three strategies: (flag, in-range scenario) -> Err(OutOfBounds) | computes"""
    import ndi.kernels as _k
    with _k.strict():
        return _guard_tables(chk, lib, rule, want_off, want_on)


def _guard_tables(chk, lib, rule, want_off=True, want_on=False):
    n = 0
    rows = []

    def judge(name, o, flag_on, inr, key):
        nonlocal n
        n += 1
        if flag_on and not want_on:
            return
        if (not flag_on) and not want_off:
            return
        if o.kind == 'exc' and (o.m.lookups or o.m.writes):
            # the guard prefix was passed (the bracket lookup / a write was reached); what follows is not C05's subject
            kind_eff = 'ok'
        else:
            kind_eff = o.kind
        if kind_eff == 'exc':
            chk.ob(rule, "%s: the guard prefix is a decision over (flag, range predicates): %s" % (name, o.exc), False,
                   o.exc.where, key + '-unrecognised')
            return
        should_err = (not flag_on) and (not inr)
        if flag_on and not want_on:
            return
        if (not flag_on) and not want_off:
            return
        if should_err:
            chk.ob(rule, "%s %s -> must be Err(OutOfBounds) without touching the target (got %s %s, %d writes)" %
                   (name, key, o.kind, o.err, len(o.m.writes)),
                   kind_eff == 'err' and o.err == OOB and not o.m.writes, lib.body(name_to_path[name])['span'], name + '-' + key)
        else:
            chk.ob(rule, "%s %s -> must compute (got %s %s, %d writes, %d lookups)" % (name, key, o.kind, o.err, len(o.m.writes), len(o.m.lookups)),
                   kind_eff == 'ok' and (len(o.m.writes) >= 1 or len(o.m.lookups) >= 1), lib.body(name_to_path[name])['span'], name + '-' + key)
        rows.append((name, key, o.kind))

    name_to_path = {'Linear': LIN, 'CubicSpline': SPL, 'Bilinear': BIL}
    for p in name_to_path.values():
        if anchor(chk, lib, p, rule) is None:
            return 0
    for ext in (False, True):
        for rel in REL6:
            if ext and rel == 'nan':
                continue
            judge('Linear', run_linear(lib, ext, rel), ext, in_range(rel), 'extrapolate=%s,q=%s' % (ext, rel))
    for ext in ('No', 'Yes', 'Periodic'):
        for rel in REL6:
            if ext != 'No' and rel == 'nan':
                continue
            judge('CubicSpline', run_spline(lib, ext, rel), ext != 'No', in_range(rel), 'extrapolate=%s,q=%s' % (ext, rel))
    for ext in (False, True):
        for rx in REL6:
            for ry in REL6:
                if ext and 'nan' in (rx, ry):
                    continue
                judge('Bilinear', run_bilinear(lib, ext, rx, ry), ext, in_range(rx) and in_range(ry),
                      'extrapolate=%s,qx=%s,qy=%s' % (ext, rx, ry))
    return n


def run(chk):
    lib = load(chk)
    chk.technique = ("finite decision tables: range predicates and strategy guards are evaluated over all order "
                     "scenarios of (query vs first/last axis value, incl. unordered) x flag values by table lookup on the typed tree")
    chk.rule('R5.1', "is_in_range / is_in_x_range / is_in_y_range over {q<first, q=first, inside, q=last, q>last, NaN} "
                     "is F,T,T,T,F,F and compares with first and last value of the matching axis")
    chk.rule('R5.2', "each strategy, with extrapolation off, returns Err(OutOfBounds) and writes nothing exactly when a "
                     "coordinate is out of range (or NaN), the predicate being applied to the unmodified parameter of "
                     "the matching axis; otherwise it computes")
    chk.rule('R5.3', "batch entry points stop at the first error and return it unchanged (general path `?`, fast path "
                     "FoldWhile::Done(Err(e)) + into_inner)")
    chk.rule('R5.5', "strategy constructors default to extrapolate = false")
    chk.assumptions += ["PartialOrd on the element type is a partial order in which NaN is unordered to everything"]
    n1 = range_tables(chk, lib)
    n2 = guard_tables(chk, lib, 'R5.2', want_off=True, want_on=False)
    chk.floor('R5.1', 'range predicate table entries', n1, 18)
    chk.floor('R5.2', 'guard table scenarios evaluated', n2, 11 + 16 + 61)
    # R5.5 defaults: the strategy a user gets without calling any setter rejects out-of-range queries
    from ..strategies import default_of
    for ty, fam in (('Linear', 'L'), ('Bilinear', 'B'), ('CubicSpline', 'S')):
        if anchor(chk, lib, ty + '::new', 'R5.5') is None:
            continue
        try:
            for ctor, st in default_of(lib, ty):
                if fam == 'B':
                    o = run_bilinear(lib, None, 'below', 'inside', strategy=st)
                    got = 'rejects' if (o.kind == 'err' and o.err == OOB) else '%s %s' % (o.kind, o.err or o.exc or '')
                else:
                    got = behaviour_class(lib, st, fam)
                chk.ob('R5.5', "%s() gives a strategy with extrapolation off: it rejects out-of-range queries (got: %s)" % (ctor, got), got == 'rejects',
                       lib.body(ctor)['span'], 'default-' + ctor)
        except (Unsupported, Diverge) as ex:
            chk.ob('R5.5', "%s::new() / default() / build are plain configuration steps: %s" % (ty, ex), False, ex.where, 'default-' + ty)
    from . import entry
    entry.batch_short_circuit(chk, lib, 'R5.3')
    chk.rule('R5.6', "CubicSpline::build selects Extrapolate::No whenever the extrapolation flag is off, whatever the boundary condition")
    from .c06 import extrapolate_selection
    extrapolate_selection(chk, lib, 'R5.6', flags=(False,))
    chk.exhaustive = True
    chk.explanation = (
        "The three range predicates and the guard prefixes of all three strategies touch the query only through "
        "comparisons with the first/last axis value and through boolean/enum flags, so their behaviour is a finite "
        "table; %d predicate entries and %d guard scenarios were evaluated by lookup (incl. NaN = unordered). The batch "
        "paths are checked to return the sink's error unchanged at the first failing element." % (n1, n2))
