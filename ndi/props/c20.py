"""C20 - Linear/Bilinear results depend only on the bracketing data points."""
from .common import *
from ..kernels import *

LEVEL = 'other'
ALLOWED_1D = {'Interp1D::is_in_range', 'Interp1D::get_index_left_of', 'Interp1D::index_point'}
ALLOWED_2D = {'Interp2D::is_in_x_range', 'Interp2D::is_in_y_range', 'Interp2D::get_index_left_of', 'Interp2D::index_point'}


def run(chk):
    lib = load(chk)
    chk.technique = "read-set analysis: atoms of the extracted lane expression + accessor who-may-call over the strategy bodies"
    chk.rule('R20.1', "the lane expression of Linear (Bilinear) mentions only the query, x[i], x[i+1] (and y[j], y[j+1]) and the 2 (4) bracketing data rows")
    chk.rule('R20.2', "the strategy touches the interpolator only through is_in_*range, get_index_left_of and index_point; the axis values it reads besides the bracket are the first/last value, and only inside comparisons")
    chk.assumptions += ["the bracket index is a function of the order of the axis values only: comparison skeleton in C11 (its arithmetic guess is not decided)"]
    i, j = Rat.atom('i_x'), Rat.atom('i_y')
    for p in (LIN, BIL):
        if anchor(chk, lib, p, 'R20.1') is None:
            return
    n = 0
    for ext in (False, True):
        for rel in ('below', 'first', 'inside', 'last', 'above'):
            if not ext and not in_range(rel):
                continue
            o = run_linear(lib, ext, rel)
            span = lib.body(LIN)['span']
            if not ext and not (o.kind == 'ok' and len(o.m.writes) == 1):
                continue        # the range guard is C05's subject
            if not chk.ob('R20.1', "Linear ext=%s q=%s computes" % (ext, rel), o.kind == 'ok' and len(o.m.writes) == 1, span, 'lin-%s-%s' % (ext, rel)):
                continue
            n += 1
            atoms = o.m.writes[0][1].atoms()
            allowed = {'q', str(ax_atom('x', i)), str(ax_atom('x', i + 1)), str(data_atom('y', [i])), str(data_atom('y', [i + 1]))}
            chk.ob('R20.1', "Linear ext=%s q=%s: lane expression mentions only %s (got %s)" % (ext, rel, sorted(allowed), sorted(atoms)),
                   atoms <= allowed, span, 'lin-atoms-%s-%s' % (ext, rel))
            other_reads = set(o.m.reads) - allowed
            ends = {str(ax_atom('x', 0)), str(ax_atom('x', Rat.atom('n_x') - 1))}
            chk.ob('R20.2', "Linear ext=%s q=%s: values read besides the bracket are only the first/last axis value, used in comparisons (got %s)" %
                   (ext, rel, sorted(other_reads)), other_reads <= ends, span, 'lin-reads-%s-%s' % (ext, rel))
    for ext in (False, True):
        for rx in ('below', 'inside', 'above'):
            for ry in ('below', 'inside', 'above'):
                if not ext and not (in_range(rx) and in_range(ry)):
                    continue
                o = run_bilinear(lib, ext, rx, ry)
                span = lib.body(BIL)['span']
                if not ext and not (o.kind == 'ok' and len(o.m.writes) == 1):
                    continue
                if not chk.ob('R20.1', "Bilinear ext=%s computes" % ext, o.kind == 'ok' and len(o.m.writes) == 1, span, 'bil-%s-%s-%s' % (ext, rx, ry)):
                    continue
                n += 1
                atoms = o.m.writes[0][1].atoms()
                allowed = {'qx', 'qy'} | {str(ax_atom('x', i + d)) for d in (0, 1)} | {str(ax_atom('y', j + d)) for d in (0, 1)} | \
                          {str(data_atom('z', [i + d, j + e])) for d in (0, 1) for e in (0, 1)}
                chk.ob('R20.1', "Bilinear ext=%s (%s,%s): lane expression mentions only the cell's 4 axis values, 4 corner rows and the query (got %s)" %
                       (ext, rx, ry, sorted(atoms)), atoms <= allowed, span, 'bil-atoms-%s-%s-%s' % (ext, rx, ry))
                ends = {str(ax_atom(a, 0)) for a in 'xy'} | {str(ax_atom(a, Rat.atom('n_' + a) - 1)) for a in 'xy'}
                other_reads = set(o.m.reads) - allowed
                chk.ob('R20.2', "Bilinear ext=%s (%s,%s): other values read are only first/last axis values in comparisons (got %s)" %
                       (ext, rx, ry, sorted(other_reads)), other_reads <= ends, span, 'bil-reads-%s-%s-%s' % (ext, rx, ry))
    chk.floor('R20.1', 'kernel runs inspected', n, 5 + 9)
    # accessor who-may-call: crate-local callees of the two strategy bodies (+closures)
    for path, allowed in ((LIN, ALLOWED_1D), (BIL, ALLOWED_2D)):
        b = lib.body(path)
        # the strategy body plus every private helper it calls (found through the call graph, not by name): none of them may touch the
        # interpolator except through the accessors, and none may read its fields
        work, seen, n_acc, kinds = [b], set(), 0, set()
        while work:
            cur = work.pop()
            if cur['def'] in seen:
                continue
            seen.add(cur['def'])
            for nm, x in lib.local_callees(cur):
                if nm in allowed:
                    n_acc += 1
                    kinds.add(nm)
                    continue
                takes_interp = any(('Interp1D<' in a.get('ty', '') or 'Interp2D<' in a.get('ty', '')) for a in x.get('args', []))
                hb = lib.body(nm)
                if hb is not None and (not nm.startswith(('Interp1D::', 'Interp2D::')) or hb.get('vis') != 'Public'):
                    work.append(hb)       # a private (or crate-private) helper: analysed like the strategy body itself
                    continue
                chk.ob('R20.2', "%s reaches the interpolator through %s, which is not one of the bracket accessors" % (path.split(' as ')[0], nm),
                       not takes_interp and hb is None, line_of(x), 'callee-%s-%s' % (path.split(' as ')[0], nm))
            for bb, x in lib.all_exprs(cur):
                if x.get('k') == 'Field' and ('Interp1D<' in x['e']['ty'] or 'Interp2D<' in x['e']['ty']) and \
                        not strip_generics(cur['def']).startswith(('Interp1D::', 'Interp2D::')):      # the interpolator's own methods own its fields
                    chk.ob('R20.2', "%s reads field `%s` of the interpolator directly" % (strip_generics(cur['def']), x['name']), False, line_of(x),
                           'field-%s-%s' % (path.split(' as ')[0], x['name']))
        chk.ob('R20.2', "%s (with its private helpers) reaches the interpolator through every kind of bracket accessor (found %d call sites of %s)" %
               (path.split(' as ')[0], n_acc, sorted(kinds)), kinds == allowed, b['span'],
               'callee-floor-' + path.split(' as ')[0])
    # the bracket index is a function of the ORDER of the axis values only: comparison skeleton of the lookup (shared with C11)
    from . import c11
    c11.analyse(chk, lib, set_text=False)
    chk.explanation = ("The extracted lane expressions of Linear and Bilinear mention only the bracketing axis values and data rows "
                       "and the query; all other reads are first/last axis values inside range comparisons, and the strategies reach the "
                       "interpolator only through the bracket accessors. A non-bracketing sample can therefore influence the result only "
                       "through the bracket index (C11).")
