"""C17 - an interpolator is immutable; Send + Sync."""
from .common import *
from ..tables import *

LEVEL = 'proof'

QUERY_TYPES = ('Interp1D', 'Interp2D')


def all_mir_calls(lib):
    for d, m in lib.mir.items():
        for bi, bb in enumerate(m['blocks']):
            t = bb['term']
            if t['k'] == 'call':
                yield d, m, bi, t


def run(chk):
    lib = load(chk)
    f = lib.f
    chk.technique = ("typing proof: deep interior-mutability type walk over the compiler's types, no statics, "
                     "&self receivers, unsafe confinement, stateful-callee deny table, Send/Sync witnesses")
    chk.rule('R17.1', "no UnsafeCell is reachable (through fields, references, pointers, boxes, containers) from any "
                      "type of the crate except through a generic storage/element parameter chosen by the caller")
    chk.rule('R17.2', "the crate defines no static / static mut / thread_local and no body refers to one")
    chk.rule('R17.3', "every query method of the interpolators and every strategy `interp_into` takes `&self`")
    chk.rule('R17.4', "explicit unsafe blocks exist only in the identity cast, its TypeId-guarded call sites, and "
                      "ndarray's `s!` macro expansion")
    chk.rule('R17.5', "no callee introduces global state, interior mutability or nondeterminism (crate allow-list + "
                      "stateful-path deny table over all resolved MIR callees)")
    chk.assumptions += [
        "safe Rust: a `&T` without reachable UnsafeCell cannot be written through, so no call taking `&self` - "
        "successful, failing or panicking - can change what a later call observes",
        "interior mutability inside the caller-chosen storage parameter (e.g. Arc refcounts of ArcArray) is the "
        "caller's choice and does not alias the element data",
    ]
    # ---- R17.1
    adts = f['adts']
    chk.floor('R17.1', 'ADTs walked', len(adts), 12)      # the 14 public types minus slack; private helper types come and go
    for a in adts:
        chk.ob('R17.1', "type %s: no UnsafeCell reachable (walked %d types); generic parameters reached: %s" %
               (a['path'], a['types_walked'], a['reached_params']),
               not a['cell_paths'], a['span'], 'cell-' + a['path'], a['cell_paths'])
        chk.ob('R17.1', "type %s: the walk met no type kind it cannot look into (%s)" % (a['path'], a['reached_opaque']),
               not a['reached_opaque'], a['span'], 'opaque-' + a['path'], a['reached_opaque'])
        if len(chk.samples) < 6:
            chk.sample({"adt": a['path'], "types_walked": a['types_walked'], "cells": a['cell_paths'],
                        "params": a['reached_params']})
    names = {a['path'] for a in adts}
    for need in ('Interp1D', 'Interp2D', 'Linear',
                 'Bilinear', 'CubicSplineStrategy',
                 'CubicSpline'):
        chk.require(need in names, 'R17.1', 'adt-anchor-' + need, need, "public type `%s` is among the walked ADTs" % need)
    # ---- R17.2
    chk.ob('R17.2', "no static items in the crate (found %s)" % [s['path'] for s in f['statics']],
           not f['statics'], key='statics', detail=f['statics'])
    n_nodes = 0
    for d, b in lib.bodies.items():
        for x in walk(b.get('root')):
            n_nodes += 1
            if x.get('k') in ('StaticRef', 'ThreadLocalRef'):
                chk.ob('R17.2', "body %s refers to static %s" % (strip_generics(d), x.get('def')), False,
                       line_of(x), 'staticref-%s-%s' % (strip_generics(d), x.get('def')))
    chk.note('thir_nodes_scanned', n_nodes)
    n_ops = 0
    for d, m in lib.mir.items():
        for bb in m['blocks']:
            for st in bb['stmts']:
                for o in st.get('ops', []):
                    n_ops += 1
                    if isinstance(o, dict) and o.get('static'):
                        chk.ob('R17.2', "MIR of %s refers to static %s" % (strip_generics(d), o['static']), False,
                               st['sp'], 'mirstatic-%s-%s' % (strip_generics(d), o['static']))
    chk.ob('R17.2', "scanned %d THIR nodes and %d MIR operands for static references" % (n_nodes, n_ops),
           n_nodes > 3000 and n_ops > 1000, key='scan-floor')
    # ---- R17.3
    n_q = 0
    for d, b in lib.bodies.items():
        if b.get('kind') != 'AssocFn':
            continue
        nd = strip_generics(d)
        is_query = any(nd.startswith(q + '::') for q in QUERY_TYPES) and b.get('vis') == 'Public'
        is_strat = b.get('impl_trait') in ('Interp1DStrategy',
                                           'Interp2DStrategy')
        if not (is_query or is_strat):
            continue
        params = b.get('params', [])
        sk = params[0].get('self_kind') if params else None
        if sk is None:
            # associated constructor without receiver (builder, new_unchecked): takes no interpolator at all
            takes_interp = any(('Interp1D<' in p['ty'] or 'Interp2D<' in p['ty']) and '&mut' in p['ty'] for p in params)
            chk.ob('R17.3', "%s has no receiver and takes no `&mut` interpolator" % nd, not takes_interp,
                   b['span'], 'ctor-' + nd)
            continue
        n_q += 1
        chk.ob('R17.3', "%s takes `&self` (receiver kind %s)" % (nd, sk), sk == 'RefImm', b['span'], 'recv-' + nd)
        for p in params[1:]:
            bad = ('&mut' in p['ty']) and ('Interp1D<' in p['ty'] or 'Interp2D<' in p['ty'])
            chk.ob('R17.3', "%s takes no `&mut` interpolator parameter" % nd, not bad, b['span'], 'mutparam-' + nd)
    chk.floor('R17.3', 'query/strategy methods with a receiver', n_q, 8 + 9 + 3)
    # ---- R17.4
    n_exp = 0
    for u in f['unsafe_blocks']:
        if u['mode'] != 'ExplicitUnsafe':
            continue
        n_exp += 1
        where = strip_generics(u['in'])
        if u['from_expansion']:
            ok = bool(u['expn']) and u['expn'][-1] == 'ndarray::s' or (u['expn'] and u['expn'][0] == 'ndarray::s')
            chk.ob('R17.4', "macro-generated unsafe block in %s comes from ndarray::s (%s)" % (where, u['expn']),
                   ok, u['sp'], 'unsafe-macro-%s-%s' % (where, u['expn']))
        else:
            ok = lib.is_role(where, 'cast_unchecked') or _only_cast_inside(lib, u)
            chk.ob('R17.4', "hand-written unsafe block in %s contains nothing but a cast_unchecked call" % where,
                   ok, u['sp'], 'unsafe-' + where)
    chk.floor('R17.4', 'explicit unsafe blocks classified', n_exp, 1)
    for imp in f['impls']:
        if imp.get('unsafe'):
            chk.ob('R17.4', "no hand-written unsafe impl (found `%s` for %s)" % (imp.get('trait'), imp['self']),
                   bool(imp.get('expn')), imp['span'], 'unsafe-impl-%s-%s' % (imp.get('trait'), imp['self']))
    # ---- R17.5
    n_calls = 0
    crates = set()
    for d, m, bi, t in all_mir_calls(lib):
        cal = t['callee']
        if 'indirect' in cal:
            continue
        n_calls += 1
        for which in ('path', 'resolved'):
            p = cal.get(which)
            if not p:
                continue
            cr = cal.get('crate' if which == 'path' else 'resolved_crate')
            crates.add(cr)
            sp = strip_generics(p)
            chk.ob('R17.5', "callee crate `%s` is one of %s" % (cr, sorted(ALLOWED_CRATES)), cr in ALLOWED_CRATES,
                   t['sp'], 'crate-%s' % cr) if cr not in ALLOWED_CRATES else None
            for pre, why in STATEFUL_PREFIXES.items():
                if sp.startswith(pre):
                    if pre == 'std::intrinsics::':
                        if sp.split('::')[-1] in PURE_INTRINSICS:
                            continue
                        why = "unreviewed intrinsic"
                    chk.ob('R17.5', "%s calls %s (%s)" % (strip_generics(d), sp, why), False, t['sp'],
                           'stateful-%s-%s' % (strip_generics(d), sp))
    chk.ob('R17.5', "all %d resolved MIR callees are in crates %s and none matches the stateful table" %
           (n_calls, sorted(c for c in crates if c)), n_calls > 600, key='callee-scan-floor')
    chk.note('callee_crates', sorted(c for c in crates if c))
    chk.note('resolved_mir_call_sites', n_calls)
    # ---- R17.7 / R17.8: nothing a call leaves behind - in the interpolator OR in the caller's buffer - can influence a later answer
    chk.rule('R17.7', "a batch in which one element fails and a later one succeeds returns that element's error from every batch entry point (no verdict depends on the order of a batch or on the entry point)")
    from . import entry
    entry.batch_short_circuit(chk, lib, 'R17.7', report_unsupported=False)
    chk.rule('R17.8', "the built-in strategies overwrite their target: the value written never mentions what the buffer held before (so a reused buffer cannot carry an earlier answer into a later one)")
    from ..kernels import run_linear, run_spline, run_bilinear, LIN, SPL, BIL
    for name, o, path in (('Linear', run_linear(lib, True, 'inside'), LIN), ('CubicSpline', run_spline(lib, 'Yes', 'inside'), SPL),
                          ('Bilinear', run_bilinear(lib, True, 'inside', 'inside'), BIL)):
        if o.kind != 'ok':
            continue        # extraction problems are reported by the numeric checks
        olds = [a for w in o.m.writes for a in w[1].atoms() if a.endswith('.old')]
        chk.ob('R17.8', "%s: the written lane value does not depend on the previous content of the target" % name, not olds, lib.body(path)['span'], 'overwrites-' + name)
    if chk.tier == 'thorough' or True:
        from .. import witness
        witness.send_sync(chk)
    chk.explanation = (
        "Immutability is decided as a typing fact: none of the %d types of the crate reaches an UnsafeCell except "
        "through caller-chosen generic parameters, there are no statics, all %d query/strategy methods take &self, "
        "hand-written unsafe is confined to the identity cast (C19), and none of the %d resolved callees touches "
        "global state. In safe Rust this implies that no history or interleaving of calls can change a later "
        "answer. Send+Sync is shown by compile-time witnesses." % (len(adts), n_q, n_calls))


def _only_cast_inside(lib, u):
    """the unsafe block at span u['sp'] contains only a call to cast_unchecked"""
    b = lib.bodies.get(u['in'])
    if not b:
        return False
    for x in walk(b['root']):
        if x.get('k') == 'Block' and x.get('unsafe') and x['sp'] == u['sp']:
            inner = [y for y in walk(x) if y is not x and y.get('k') == 'Call']
            return len(inner) == 1 and lib.is_role(strip_generics(inner[0]['callee']['path']), 'cast_unchecked')
    return False
