"""C08 - every lane of n-dimensional data is interpolated independently."""
from .common import *
from ..absint import Diverge
from ..tables import CROSS_LANE
from ..kernels import *
from . import spline as S

LEVEL = 'other'
BUILD = '<CubicSpline as Interp1DStrategyBuilder>::build'
IX1 = 'ndarray::Dim<[usize; 1]>'


def array_dim(ty):
    """dimension type argument of the (outermost) ArrayBase in a type string, or None"""
    i = ty.find('ArrayBase<')
    if i < 0:
        return None
    j = i + len('ArrayBase<')
    depth = 1
    start = j
    parts = []
    while j < len(ty) and depth > 0:
        c = ty[j]
        if c == '<':
            depth += 1
        elif c == '>' and ty[j - 1] != '-':
            depth -= 1
            if depth == 0:
                parts.append(ty[start:j])
                break
        elif c == ',' and depth == 1:
            parts.append(ty[start:j])
            start = j + 1
        j += 1
    return parts[-1].strip() if len(parts) >= 2 else None


def _lanewise(o):
    """a kernel run is fine for C08 unless it stopped at an ARRAY operation outside the lane-wise surface
    (scalar-level problems - an unknown scalar function, an undecided scalar comparison - are not lane problems)"""
    if o.kind in ('ok', 'err'):
        return True
    return getattr(o.exc, 'tag', 'other') != 'array-op' and not isinstance(o.exc, Diverge)


def reachable(lib, roots):
    seen = []
    work = list(roots)
    while work:
        p = work.pop()
        if p in seen:
            continue
        b = lib.body(p)
        if b is None:
            continue
        seen.append(p)
        for nm, x in lib.local_callees(b):
            if nm not in seen:
                work.append(nm)
            r = x['callee'].get('resolved')
            if r:
                rn = strip_generics(r)
                if rn not in seen and lib.body(rn) is not None:
                    work.append(rn)
    return seen


def _is_fmt_node(pn):
    return (pn.get('k') == 'Call' and pn.get('callee') and
            strip_generics(pn['callee'].get('path') or '').startswith(('std::fmt::', 'core::fmt::', 'core::panicking::'))) or \
        any('format' in str(m) or 'panic' in str(m) for m in (pn.get('expn') or []))


PLUMBING = ('Borrow', 'Deref', 'NeverToAny', 'PointerCoercion', 'ByUse', 'Scope', 'Tuple', 'Cast')
OPTION_PLUMBING = ('cloned', 'copied', 'unwrap_or_else', 'unwrap', 'expect', 'as_ref', 'unwrap_or')


def _pat_binds(pat):
    if pat.get('k') == 'Binding':
        yield pat['var']
        if pat.get('sub'):
            yield from _pat_binds(pat['sub'])
    for f in pat.get('fields', []):
        yield from _pat_binds(f['pat'])
    for key in ('pats', 'prefix', 'suffix'):
        for p in pat.get(key, []) or []:
            yield from _pat_binds(p)
    if pat.get('k') == 'Deref' and pat.get('sub'):
        yield from _pat_binds(pat['sub'])


def _only_reaches_messages(lib, body, node, depth=0):
    """does the value computed at `node` (an expression of `body`) reach nothing but the text of an error / panic message?
    Followed: reference / tuple / Option plumbing upwards, `let` bindings (any pattern) to every use of the bound variables,
    arguments of crate-local functions and closures to the uses of the corresponding parameter (recursively)."""
    if depth > 4:
        return False
    root = body.get('root')
    anc_of = {}
    for n, anc in walk_anc(root):
        anc_of[id(n)] = anc
    anc = anc_of.get(id(node))
    if anc is None:
        return False
    # 1. directly inside a formatting call
    if any(_is_fmt_node(pn) for pn, _ in anc):
        return True
    # 2. climb through plumbing
    cur = node
    rev = list(reversed(anc))
    for ai, (pn, slot) in enumerate(rev):
        k = pn.get('k')
        # an element of the argument tuple of a call through a closure variable: `f(a, b)` is `Fn::call(&f, (a, b))`
        if k == 'Tuple' and ai + 1 < len(rev) and rev[ai + 1][0].get('k') == 'Call' and \
                strip_generics((rev[ai + 1][0].get('callee') or {}).get('path') or '') in ('std::ops::Fn::call', 'std::ops::FnMut::call_mut', 'std::ops::FnOnce::call_once') \
                and len(rev[ai + 1][0].get('args', [])) == 2 and rev[ai + 1][0]['args'][1] is pn:
            call = rev[ai + 1][0]
            target = lib.bodies.get((call['callee'].get('resolved') or ''))
            pos = [i for i, a in enumerate(pn.get('elems', [])) if a is cur]
            if target is None or not pos:
                return False
            params = target.get('params', [])
            if params and params[0].get('pat') is None:
                params = params[1:]
            if pos[0] >= len(params) or not params[pos[0]].get('pat'):
                return False
            vars_ = list(_pat_binds(params[pos[0]]['pat']))
            return bool(vars_) and all(_var_only_reaches_messages(lib, target, v, depth + 1) for v in vars_)
        if k in PLUMBING or (k == 'If' and slot in ('then', 'else')) or (k == 'Block' and slot == 'expr'):
            cur = pn          # the value is handed on unchanged (a branch / block yields it)
            continue
        if k == 'Call' and pn.get('args') and pn['args'][0] is cur and cname(pn) in OPTION_PLUMBING:
            cur = pn
            continue
        if k == 'Call' and pn.get('callee') and any(a is cur for a in pn['args']):
            # an argument of a crate-local function or closure: follow the parameter
            pos = [i for i, a in enumerate(pn['args']) if a is cur][0]
            cal = pn['callee']
            target = None
            if cal.get('closure'):
                target = lib.bodies.get(cal['closure'])
            elif cal.get('crate') == lib.f['crate']:
                target = lib.body(strip_generics(cal.get('resolved') or cal['path']))
            if target is None:
                return False
            params = target.get('params', [])
            if params and params[0].get('pat') is None:      # a closure's own environment parameter
                params = params[1:]
            if pos >= len(params) or not params[pos].get('pat'):
                return False
            vars_ = list(_pat_binds(params[pos]['pat']))
            return bool(vars_) and all(_var_only_reaches_messages(lib, target, v, depth + 1) for v in vars_)
        break
    # 3. the initialiser of a `let`: every variable the pattern binds
    for blk in walk(root):
        if blk.get('k') != 'Block':
            continue
        for st in blk.get('stmts', []):
            if st.get('k') != 'Expr' and st.get('init') is not None:
                init = st['init']
                if init is cur or _reaches_via_plumbing(init, cur):
                    vars_ = list(_pat_binds(st['pat']))
                    return bool(vars_) and all(_var_only_reaches_messages(lib, body, v, depth + 1) for v in vars_)
    return False


def _reaches_via_plumbing(e, target):
    while isinstance(e, dict):
        if e is target:
            return True
        k = e.get('k')
        if k in PLUMBING and k != 'Tuple':
            e = e.get('e')
        elif k == 'Tuple':
            return any(_reaches_via_plumbing(x, target) for x in e.get('elems', []))
        elif k == 'If':
            return any(_reaches_via_plumbing(e.get(s_), target) for s_ in ('then', 'else') if e.get(s_) is not None)
        elif k == 'Block' and e.get('expr') is not None:
            e = e['expr']
        elif k == 'Call' and e.get('args') and cname(e) in OPTION_PLUMBING:
            e = e['args'][0]
        else:
            return False
    return False


def _var_only_reaches_messages(lib, body, var, depth):
    uses = 0
    for b in lib.with_closures(body):
        for n, anc in walk_anc(b.get('root')):
            if n.get('k') in ('Var', 'Upvar') and n.get('var') == var:
                uses += 1
                if not _only_reaches_messages(lib, b, n, depth):
                    return False
    return uses > 0


def run(chk):
    lib = load(chk)
    chk.technique = ("effect analysis: (a) every operation on a lane-carrying array in the strategies and the solver lies in the reviewed lane-wise surface "
                     "(lane-generic abstract evaluation of all kernels and all boundary scenarios succeeds), (b) type-resolved cross-lane deny table over the "
                     "call-graph closure of the strategies, (c) per-lane boundary dispatcher rules")
    chk.rule('R8.1', "no cross-lane operation (reductions, contractions, axis permutation/inversion, reshapes, flat iteration, windows, single-element access) is applied to an array "
                     "whose dimension type is not Ix1 in any function reachable from the strategies' interp_into / build")
    chk.rule('R8.2', "the per-lane dispatcher splits k, data and the boundary array along the same last axis, recurses on the co-iterated sub-views and gives each lane its own boundary element")
    chk.rule('R8.3', "all kernels and all solver scenarios evaluate in the lane-generic model, where a row is ONE symbolic lane value: no scalar is extracted from a lane array "
                     "into arithmetic and closures capture only scalars derived from the axis, literals, the query and the lane's own boundary value")
    chk.assumptions += ["ndarray's Zip / elementwise operators / assign / fill apply the same scalar operation sequence to every lane (no reordering inside a lane): hence bit-identity per lane",
                        "comparisons of whole rows (periodic end rows) only feed validation errors, not results"]
    roots = [LIN, SPL, BIL, BUILD]
    for r in roots:
        if anchor(chk, lib, r, 'R8.1') is None:
            return
    scope = reachable(lib, roots)
    chk.note('functions_in_scope', scope)
    chk.floor('R8.1', 'functions reachable from the strategies', len(scope), 15)
    n_calls = 0
    n_lane = 0
    for p in scope:
        b = lib.body(p)
        for bb in lib.with_closures(b):
          for x, anc in walk_anc(bb.get('root')):
            if x.get('k') != 'Call' or not x.get('callee'):
                continue
            cal = x['callee']
            isnd = cal.get('crate') == 'ndarray' or 'ndarray::' in (cal.get('resolved') or '')
            if not isnd or not x['args']:
                continue
            n_calls += 1
            name = strip_generics(cal.get('resolved') or cal['path']).split('::')[-1]
            ty0 = x['args'][0]['ty'].lstrip('&').replace('mut ', '', 1).strip()
            if not ty0.startswith('ndarray::ArrayBase<'):
                continue            # Zip, iterators, dimensions: not an array receiver
            dim = array_dim(ty0)
            if dim is None or dim == IX1:
                continue
            n_lane += 1
            if name in CROSS_LANE:
                # reviewed exceptions
                in_fmt = any(pn.get('k') == 'Call' and pn.get('callee') and
                             (strip_generics(pn['callee'].get('path') or '').startswith(('std::fmt::', 'core::fmt::', 'core::panicking::')))
                             for pn, _ in anc) or any('format' in str(m) or 'panic' in str(m) for pn, _ in anc for m in (pn.get('expn') or []))
                if not in_fmt:
                    in_fmt = _only_reaches_messages(lib, bb, x)
                boundary_elem = 'RowBoundary' in ty0 and name == 'first'
                ok = in_fmt or boundary_elem
                chk.ob('R8.1', "%s applies `%s` (%s) to a lane array of dimension type %s%s" %
                       (p, name, CROSS_LANE[name], dim, ' - inside an error message' if in_fmt else (' - the lane\'s own boundary element' if boundary_elem else '')),
                       ok, line_of(x), 'crosslane-%s-%s' % (p, name))
    chk.ob('R8.1', "scanned %d ndarray calls (%d on lane arrays) in %d functions against %d table entries" % (n_calls, n_lane, len(scope), len(CROSS_LANE)),
           n_calls >= 150 and n_lane >= 40, key='scan-floor')
    # ---- R8.3 lane-generic evaluation of everything
    n_eval = 0
    for ext in (True,):
        for rel in ('below', 'first', 'inside', 'last', 'above'):
            o = run_linear(lib, ext, rel)
            n_eval += 1
            chk.ob('R8.3', "Linear (ext=%s, q %s) evaluates lane-wise" % (ext, rel), _lanewise(o), o.exc.where if o.exc else '', 'lanewise-linear-%s-%s' % (ext, rel), str(o.exc))
    for ext in ('Yes', 'Periodic'):
        for rel in ('below', 'inside', 'above'):
            o = run_spline(lib, ext, rel)
            n_eval += 1
            chk.ob('R8.3', "CubicSpline evaluation (%s, q %s) evaluates lane-wise" % (ext, rel), _lanewise(o), o.exc.where if o.exc else '', 'lanewise-spline-%s-%s' % (ext, rel), str(o.exc))
    for ext in (True,):
        o = run_bilinear(lib, ext, 'inside', 'above')
        n_eval += 1
        chk.ob('R8.3', "Bilinear (ext=%s) evaluates lane-wise" % ext, _lanewise(o), o.exc.where if o.exc else '', 'lanewise-bilinear-%s' % ext, str(o.exc))
    for n in (None, 3):
        for lk in S.KINDS:
            for rk in S.KINDS:
                m, out, ex = S.run_solve(lib, S.mixed(lk, rk), n)
                n_eval += 1
                chk.ob('R8.3', "solve_for_k Mixed{%s,%s} n=%s evaluates lane-wise" % (lk, rk, n or 'symbolic'), ex is None, ex.where if ex else '', 'lanewise-solve-%s-%s-%s' % (lk, rk, n), str(ex))
        m, out, ex = S.run_solve(lib, S.internal('Periodic'), n, ends_equal=True)
        n_eval += 1
        chk.ob('R8.3', "solve_for_k Periodic n=%s evaluates lane-wise" % (n or 'symbolic'), ex is None, ex.where if ex else '', 'lanewise-periodic-%s' % n, str(ex))
    for bc in ('NotAKnot', 'Natural', 'Clamped', 'Periodic', 'Individual'):
        m, out, ex, _ = S.run_calc(lib, bc)
        n_eval += 1
        chk.ob('R8.3', "calc_coefficients(%s) evaluates lane-wise" % bc, ex is None, ex.where if ex else '', 'lanewise-calc-' + bc, str(ex))
    chk.floor('R8.3', 'lane-generic evaluations', n_eval, 5 + 6 + 1 + 52 + 5)
    ex = S.thomas_evaluates(lib)
    n_eval += 1
    chk.ob('R8.3', "the tridiagonal solver evaluates lane-wise (its algebra is C02's subject)", ex is None, getattr(ex, 'where', ''), 'lanewise-thomas', str(ex))
    S.check_dispatcher(chk, lib, 'R8.2')
    chk.sample({"scope": scope[:8], "lane-wise surface": ["Zip::for_each", "Zip::map_assign_into", "index_axis(_mut)(Axis(0), i)", "assign", "fill", "elementwise + - * /", "slice_axis(Axis(0))", "to_owned"]})
    chk.explanation = ("Lane independence is an effect property of the code shape: in the %d functions reachable from the strategies, every ndarray operation on a lane array "
                       "(%d call sites) is elementwise or selects rows along Axis(0); the whole numeric core evaluates in a model where a row is one symbolic lane value (%d "
                       "evaluations, any cross-lane use would be unmodelled and reported); the per-lane boundary dispatcher co-iterates k, data and boundary along the same "
                       "last axis down to rank 1. Per-lane arithmetic is therefore the same operation sequence as for a single-lane interpolator." % (len(scope), n_lane, n_eval))
