"""Entry-point level analysis shared by C05 (R5.3), C09, C14, C18: runs the abstract evaluator with the
entry-point model over every public query entry point of Interp1D / Interp2D for each scenario."""
from ..absint import *
from ..epmodel import *
from ..thir import Lib, strip_generics

ENTRIES = ['interp_scalar', 'interp', 'interp_into', 'interp_array', 'interp_array_into']


class Run:
    def __init__(self, name, lead, scn, model, outcome, value=None, exc=None):
        self.name, self.lead, self.scn, self.m, self.outcome, self.value, self.exc = name, lead, scn, model, outcome, value, exc

    def __repr__(self):
        return "Run(%s lead=%d %s -> %s sinks=%d)" % (self.name, self.lead, {k: v for k, v in self.scn.items()}, self.outcome, len(self.m.sinks))


def run_entry(lib, lead, name, scn):
    """scn: fast(bool), shape_ok(bool), qshape_ok(bool), sink('ok'|'err')"""
    prefix = 'Interp1D::' if lead == 1 else 'Interp2D::'
    body = lib.body(prefix + name)
    if body is None:
        return None
    m = EPModel(dict(scn))
    it = Interp(lib, m)
    strat = Obj('custom_strategy')
    heads = [('s', 'd0')] if lead == 1 else [('s', 'd0'), ('s', 'd1')]
    data_items = heads if name == 'interp_scalar' else heads + [('seq', 'T')]
    ip = m.make_interp(lead, strat, data_items)
    m.qdim = Dim([('s', 'q0')]) if scn.get('fast') else Dim([('seq', 'Q')])
    args = [Ref(ValPlace(ip))]
    qn = ['qx'] if lead == 1 else ['qx', 'qy']
    if name in ('interp_scalar', 'interp', 'interp_into'):
        args += [Num(Rat.atom(q)) for q in qn]
    else:
        xs = Obj('ndarr', name='xs', shape=m.qdim, role='query')
        args.append(Ref(ValPlace(xs)))
        if lead == 2:
            ys = Obj('ndarr', name='ys', shape=Dim([('seq', 'Y')]), role='query')
            args.append(Ref(ValPlace(ys)))
    m.buf = None
    if name in ('interp_into', 'interp_array_into'):
        bshape = Dim([('s', 'b0'), ('seq', 'BT')]) if (scn.get('fast') and name == 'interp_array_into') else Dim([('seq', 'B')])
        buf_root = Obj('ndarr', name='buf', shape=bshape, role='caller')
        m.buf = Obj('view', root=buf_root, rootkind='caller', shape=buf_root.d['shape'], lead=None, ones=Rat.const(0))
        args.append(m.buf)
    try:
        out = deref_all(it.call_def(body['def'], args))
        return Run(name, lead, scn, m, 'return', out)
    except Diverge as d:
        return Run(name, lead, scn, m, 'panic', exc=d)
    except Unsupported as u:
        return Run(name, lead, scn, m, 'unsupported', exc=u)


def scenarios(name, lead):
    if name in ('interp_scalar', 'interp', 'interp_into'):
        for sink in ('ok', 'err'):
            yield {'sink': sink}
        return
    for fast in (True, False):
        for sink in ('ok', 'err'):
            for shape_ok in ((True, False) if name == 'interp_array_into' else (True,)):
                for qshape_ok in ((True, False) if lead == 2 else (True,)):
                    yield {'fast': fast, 'sink': sink, 'shape_ok': shape_ok, 'qshape_ok': qshape_ok}


def all_runs(lib):
    runs = []
    for lead in (1, 2):
        for name in ENTRIES:
            for scn in scenarios(name, lead):
                r = run_entry(lib, lead, name, scn)
                if r is not None:
                    runs.append(r)
    return runs


def is_ok(v):
    return isinstance(v, Enum) and v.adt == 'std::result::Result' and v.variant == 'Ok'


def is_err(v):
    return isinstance(v, Enum) and v.adt == 'std::result::Result' and v.variant == 'Err'


def batch_short_circuit(chk, lib, rule, report_unsupported=True):
    """R5.3 / R18.4 on the batch paths: the first Err of the sink is what the entry point returns, unchanged,
    and no further sink call follows it."""
    n = 0
    for lead in (1, 2):
        for name in ('interp_array', 'interp_array_into'):
            for fast in (True, False):
                scn = {'fast': fast, 'sink': 'err', 'shape_ok': True, 'qshape_ok': True}
                r = run_entry(lib, lead, name, scn)
                key = '%dd-%s-%s' % (lead, name, 'fast' if fast else 'general')
                if r is None:
                    chk.ob(rule, "entry point %s exists" % key, False, '', key + '-missing')
                    continue
                n += 1
                if r.outcome != 'return':
                    if r.outcome == 'unsupported' and not report_unsupported:
                        continue        # a construct outside the reviewed entry-point surface is reported by C09 / C14, whose subject it is
                    chk.ob(rule, "%s: batch path with a failing element returns (got %s: %s)" % (key, r.outcome, r.exc), False,
                           r.exc.where if r.exc else '', key + '-shape')
                    continue
                same = is_err(r.value) and deref_all(r.value.fields['0']) is getattr(r.m, 'err_token', None)
                chk.ob(rule, "%s: the strategy's error for a failing element is returned unchanged as the result of the whole call" % key,
                       same, lib.body(('Interp1D::' if lead == 1 else 'Interp2D::') + name)['span'], key + '-err-identity')
                chk.ob(rule, "%s: exactly one strategy call happens for the failing element and none after it (got %d)" % (key, len(r.m.sinks)),
                       len(r.m.sinks) == 1, '', key + '-no-call-after-error')
                if fast:
                    steps = [ev for ev in r.m.events if ev[0] == 'fold_step']
                    chk.ob(rule, "%s: the fold step maps Err(e) to FoldWhile::Done (which stops the Zip), got %s" % (key, steps),
                           steps == [('fold_step', 'e', 'Done')], '', key + '-done')
    return n


def never_rejects_itself(chk, lib, rule):
    """the entry points add no rejection of their own: with well-shaped arguments and a strategy that answers, every entry point
    returns Ok after handing each element to the strategy - no decision at entry level depends on the query value"""
    n = 0
    for r in all_runs(lib):
        if r.scn.get('sink') != 'ok' or not r.scn.get('shape_ok', True) or not r.scn.get('qshape_ok', True):
            continue
        key = '%dd-%s-%s' % (r.lead, r.name, ','.join('%s=%s' % kv for kv in sorted(r.scn.items())))
        n += 1
        if r.outcome != 'return':
            chk.ob(rule, "%s: with a strategy that answers, the entry point returns (got %s: %s)" % (key, r.outcome, r.exc), False,
                   r.exc.where if r.exc else '', key + '-no-own-rejection')
            continue
        chk.ob(rule, "%s: with a strategy that answers every element the entry point returns Ok and reaches the strategy (%d calls seen for the generic elements)" %
               (key, len(r.m.sinks)), is_ok(r.value) and len(r.m.sinks) >= 1, '', key + '-no-own-rejection')
    return n
