"""Entry-point level rules shared by C05 / C09 / C14 / C18 (placeholder until the entry-point model lands)."""


def batch_short_circuit(chk, lib, rule):
    return
