"""C11 - segment lookup returns the bracketing interval (comparison skeleton only)."""
import copy
from .common import *
from ..absint import *
from ..kmodel import KModel
from ..poly import Rat, Poly

LEVEL = 'other'
GLI = '<ndarray::ArrayBase as VectorExtensions>::get_lower_index'


class NeedDecision(Exception):
    pass


class LookupModel(KModel):
    """Axis `A` (strictly rising, NaN-free), query q (not NaN).  Comparisons between q and A[k] (k a symbolic index
    term) and between index terms are answered from the facts of the current path or forked (decision vector)."""

    def __init__(self, decisions):
        super().__init__({})
        self.allow_opaque = False
        self.decisions = list(decisions)
        self.used = 0
        self.facts = {}            # index-term string -> set of relations of A[k] to q: 'A<q','A<=q','A>q','A>=q'
        self.idx_facts = []        # (op, lhs, rhs, bool) between index terms
        self.idx_known = {}        # canonical index comparison -> decided truth value
        self.reads = []            # (index term, facts snapshot)
        self.trace = []
        self.loop = None           # loop report
        self.guesses = 0

    # ---- facts
    def add_fact(self, k, rel):
        s = self.facts.setdefault(k, set())
        s.add(rel)
        if rel == 'A<q':
            s.add('A<=q')
        if rel == 'A>q':
            s.add('A>=q')

    def knows(self, k, rel):
        return rel in self.facts.get(k, set())

    def decide(self, label):
        if self.used < len(self.decisions):
            d = self.decisions[self.used]
            self.used += 1
            self.trace.append((label, d))
            return d
        raise NeedDecision()

    def compare(self, op, a, b, e):
        if isinstance(a, Num) and isinstance(b, Num):
            sa, sb = str(a.r), str(b.r)
            # value comparison q vs A[k]
            for (x, y, o) in ((sa, sb, op), (sb, sa, {'lt': 'gt', 'le': 'ge', 'gt': 'lt', 'ge': 'le', 'eq': 'eq', 'ne': 'ne'}[op])):
                if x == 'q' and y.startswith('A[') and y.endswith(']') and o in ('lt', 'le', 'gt', 'ge'):
                    k = y[2:-1]
                    # relation of q to A[k]; stored as relation of A[k] to q
                    true_rel = {'lt': 'A>q', 'le': 'A>=q', 'gt': 'A<q', 'ge': 'A<=q'}[o]
                    false_rel = {'lt': 'A<=q', 'le': 'A<q', 'gt': 'A>=q', 'ge': 'A>q'}[o]
                    if self.knows(k, true_rel):
                        return True
                    if self.knows(k, false_rel):
                        return False
                    d = self.decide("q %s A[%s]" % (o, k))
                    self.add_fact(k, true_rel if d else false_rel)
                    return d
            # index comparison
            if not (a.r.atoms() | b.r.atoms()) & {'q'} and not any(t.startswith('A[') for t in (a.r.atoms() | b.r.atoms())):
                ca, cb = a.const(), b.const()
                if ca is not None and cb is not None:
                    return super().compare(op, a, b, e)
                if op in ('lt', 'le', 'gt', 'ge') and a.r.is_poly() and b.r.is_poly():
                    # integers: every order comparison is `p > 0` for one canonical p (p > 0 <=> not (1 - p > 0))
                    p = {'lt': b.r - a.r, 'gt': a.r - b.r, 'le': b.r - a.r + 1, 'ge': a.r - b.r + 1}[op].as_poly()
                    if all(c.denominator == 1 for c in p.t.values()):
                        flip = False
                        lead = sorted(p.atoms())[0]
                        if p.coeff_of(lead, p.degree_in(lead)).const_value() < 0 or \
                                (p.coeff_of(lead, p.degree_in(lead)).const_value() == 0 and str(p) > str(Poly.const(1) - p)):
                            p = Poly.const(1) - p
                            flip = True
                        label = "index pos(%s)" % p
                        if label in self.idx_known:
                            return self.idx_known[label] != flip
                        d = self.decide(label)
                        self.idx_known[label] = d
                        self.idx_facts.append(('pos', str(p), '0', d))
                        return d != flip
                d = self.decide("index %s %s %s" % (sa, op, sb))
                self.idx_facts.append((op, sa, sb, d))
                return d
        raise Unsupported("comparison %s between %r and %r: the lookup must touch axis values and the query only through "
                          "order comparisons of the query with an axis value" % (op, a, b), e)

    # ---- calls
    def cast(self, v, cal, e):
        ga = cal.get('gargs', [])
        if len(ga) == 2 and ga[1] == 'usize' and ga[0] != 'usize':
            self.guesses += 1
            return SOME(Num(Rat.atom('g' if self.guesses == 1 else 'g%d' % self.guesses)))
        return SOME(v)

    def call(self, name, cal, args, e, frame):
        last = name.split('::')[-1]
        a0 = deref_all(args[0]) if args else None
        nd = (cal.get('crate') == 'ndarray') or ('ndarray::' in (cal.get('resolved') or ''))
        if nd and isinstance(a0, Obj) and a0.kind == 'vec':
            if last == 'len':
                return Num(Rat.atom('n'))
            if last == 'index':
                i = deref_all(args[1])
                k = str(i.r)
                self.reads.append((k, {kk: set(v) for kk, v in self.facts.items()}, line_of(e)))
                return Ref(ValPlace(Num(Rat.atom('A[%s]' % k))))
        return super().call(name, cal, args, e, frame)

    # ---- the binary search loop: invariant A[lo] <= q < A[hi]
    def plain_loop(self, body, frame, e):
        rep = {'where': line_of(e)}
        self.loop = rep

        def fork_frame():
            fr2 = Frame()
            chain = []
            f = frame
            while f is not None:
                chain.append(f)
                f = f.parent
            memo = {}
            for f in reversed(chain):
                for k, v in f.vars.items():
                    fr2.bind(k, copy.deepcopy(v, memo) if not isinstance(v, Clo) else v)
            return fr2

        def fork_model(dec, with_facts):
            m2 = LookupModel(dec)
            m2.guesses = 10
            if with_facts:
                m2.facts = {k: set(v) for k, v in self.facts.items()}
                m2.idx_known = dict(self.idx_known)
            return m2, Interp(self.interp.lib, m2)

        # ---- the loop state: the index-valued leaves (of variables, tuples, private structs) some body path changes
        before = dict(_leaves_of_frame(frame))
        changed = set()
        stack = [[]]
        npaths = 0
        while stack:
            dec = stack.pop()
            m2, it2 = fork_model(dec, True)
            fr2 = fork_frame()
            try:
                it2.eval(body, fr2)
                after = dict(_leaves_of_frame(fr2))
                changed |= {s for s in before if after.get(s) != before[s]}
            except (BreakEx, ReturnEx, ContinueEx):
                pass
            except NeedDecision:
                stack.append(dec + [True])
                stack.append(dec + [False])
            npaths += 1
            if npaths > 200:
                raise Unsupported("binary-search loop body has too many paths", e)
        slots = sorted(changed)
        rep['modified'] = ['%s%s' % (v, ''.join('.' + p for p in path)) for v, path in slots]
        if len(slots) != 2:
            raise Unsupported("binary-search loop state %s is not a pair of indices" % (rep['modified'],), e)
        st0 = [(s, before[s]) for s in slots]
        # the pair is kept as (lower, upper) or as (lower, width) with upper = lower + width: every reading under which the entry state
        # satisfies the invariant is a candidate; the one under which the body preserves it is reported (the first, if none does)
        cands = []
        for s_lo, v_lo in st0:
            if not self.knows(v_lo, 'A<=q'):
                continue
            other = [s_ for s_, _ in st0 if s_ != s_lo][0]
            if self.knows(dict(st0)[other], 'A>q'):
                cands.append((s_lo, other, False))
            if self.knows(str(_leaf_num(frame, s_lo).r + _leaf_num(frame, other).r), 'A>q'):
                cands.append((s_lo, other, True))
        cands.sort(key=lambda c: c[2])
        if not cands:
            rep['entry'] = tuple(v for _, v in st0)
            rep['establish'] = (False, False)
            rep['entry_facts'] = {k: sorted(v) for k, v in self.facts.items()}
            rep['steps'] = []
            _set_leaf(frame, st0[0][0], 'lo*')
            _set_leaf(frame, st0[1][0], 'hi*')
            return self._leave_loop(body, frame)

        def attempt(lo_slot, hi_slot, offset):
            def upper_of(fr):
                lo_, h_ = _leaf_num(fr, lo_slot), _leaf_num(fr, hi_slot)
                return str((lo_.r + h_.r) if offset else h_.r)

            def set_pair(fr, lo_name, hi_name):
                _set_leaf(fr, lo_slot, lo_name)
                _set_leaf(fr, hi_slot, (Rat.atom(hi_name) - Rat.atom(lo_name)) if offset else hi_name)
            # ---- preservation: one inductive step from a fresh state satisfying the invariant
            steps = []
            stack = [[]]
            while stack:
                dec = stack.pop()
                m2, it2 = fork_model(dec, False)
                fr2 = fork_frame()
                set_pair(fr2, 'lo', 'hi')
                m2.add_fact('lo', 'A<=q')
                m2.add_fact('hi', 'A>q')
                try:
                    try:
                        it2.eval(body, fr2)
                        lo1, hi1 = str(_leaf_num(fr2, lo_slot).r), upper_of(fr2)
                        steps.append({'decisions': list(m2.trace), 'exit': False, 'state': (lo1, hi1),
                                      'inv': (m2.knows(lo1, 'A<=q'), m2.knows(hi1, 'A>q')),
                                      'reads': [r[0] for r in m2.reads]})
                    except (BreakEx, ReturnEx) as ex:
                        steps.append({'decisions': list(m2.trace), 'exit': True, 'idx_facts': list(m2.idx_facts),
                                      'value': str(deref_all(ex.v).r) if isinstance(deref_all(ex.v), Num) else None,
                                      'reads': [r[0] for r in m2.reads]})
                except NeedDecision:
                    stack.append(dec + [True])
                    stack.append(dec + [False])
            good = all(all(st['inv']) for st in steps if not st['exit']) and sum(1 for st in steps if not st['exit']) == 2
            return steps, good, upper_of, set_pair
        chosen = None
        for c in cands:
            res = attempt(*c)
            if chosen is None or (res[1] and not chosen[1][1]):
                chosen = (c, res)
            if res[1]:
                break
        (lo_slot, hi_slot, offset), (steps, _, upper_of, set_pair) = chosen
        rep['representation'] = '(lower, upper - lower)' if offset else '(lower, upper)'
        lo0 = dict(st0)[lo_slot]
        hi0 = upper_of(frame)
        rep['entry'] = (lo0, hi0)
        rep['establish'] = (self.knows(lo0, 'A<=q'), self.knows(hi0, 'A>q'))
        rep['entry_facts'] = {k: sorted(v) for k, v in self.facts.items()}
        rep['steps'] = steps
        # ---- after the loop: havoc the pair, assume the invariant, leave through the body's own exit path
        set_pair(frame, 'lo*', 'hi*')
        self.add_fact('lo*', 'A<=q')
        self.add_fact('hi*', 'A>q')
        return self._leave_loop(body, frame)

    def _leave_loop(self, body, frame):
        """value of the loop expression: run the body once more from the havocked state; only its exit path continues the function"""
        try:
            self.interp.eval(body, frame)
        except BreakEx as b:
            return b.v if b.v is not None else Unit()
        raise NotExit()


class NotExit(Exception):
    """the path re-enters the loop from the summarised state: already covered by the inductive step"""


def _leaves(v, path):
    if isinstance(v, Tup):
        for i, x in enumerate(v.items):
            yield from _leaves(x, path + (str(i),))
    elif isinstance(v, Enum):
        for n in sorted(v.fields):
            yield from _leaves(v.fields[n], path + (n,))
    elif isinstance(v, Num):
        yield path, str(v.r)


def _leaves_of_frame(fr):
    chain = []
    f = fr
    while f is not None:
        chain.append(f)
        f = f.parent
    seen = {}
    for f in reversed(chain):
        for var, v in f.vars.items():
            seen[var] = v
    for var, v in seen.items():
        for path, s in _leaves(v, ()):
            yield (var, path), s


def _leaf_num(fr, slot):
    var, path = slot
    cur = deref_all(fr.lookup(var))
    for p in path:
        cur = deref_all(cur.items[int(p)] if isinstance(cur, Tup) else cur.fields[p])
    return cur


def _set_leaf(fr, slot, name):
    var, path = slot
    new = Num(name if isinstance(name, Rat) else Rat.atom(name))
    if not path:
        fr.assign(var, new)
        return
    cur = fr.lookup(var)
    for p in path[:-1]:
        cur = cur.items[int(p)] if isinstance(cur, Tup) else cur.fields[p]
    if isinstance(cur, Tup):
        cur.items[int(path[-1])] = new
    else:
        cur.fields[path[-1]] = new


def explore(lib, body):
    """all paths of get_lower_index up to / through the loop summary"""
    paths = []
    stack = [[]]
    while stack:
        dec = stack.pop()
        m = LookupModel(dec)
        it = Interp(lib, m)
        try:
            out = deref_all(it.call_def(body['def'], [Ref(ValPlace(Obj('vec'))), Num(Rat.atom('q'))]))
            paths.append((m, 'return', out))
        except NeedDecision:
            stack.append(dec + [True])
            stack.append(dec + [False])
        except NotExit:
            pass
        except Diverge as d:
            paths.append((m, 'panic', d))
        except Unsupported as u:
            paths.append((m, 'unsupported', u))
        if len(paths) > 200:
            break
    return paths


def _callers(chk, lib):
    # R11.5 callers
    from ..kmodel import interp1d_obj, interp2d_obj
    for lead, path, args, want in ((1, 'Interp1D::get_index_left_of', ['q'], [('x', 'q')]),
                                   (2, 'Interp2D::get_index_left_of', ['qx', 'qy'], [('x', 'qx'), ('y', 'qy')])):
        b = anchor(chk, lib, path, 'R11.5')
        if b is None:
            continue
        m = KModel()
        try:
            io = interp1d_obj(Unit()) if lead == 1 else interp2d_obj(Unit())
            Interp(lib, m).call_def(b['def'], [Ref(ValPlace(io))] + [Num(Rat.atom(a)) for a in args])
            chk.ob('R11.5', "%s looks the unmodified query up in the matching axis (%s)" % (path, [(a, str(v)) for a, v in m.lookups]),
                   [(a, str(v)) for a, v in m.lookups] == want, b['span'], 'caller-' + path)
        except Exception as ex:
            chk.ob('R11.5', "%s: %s" % (path, ex), False, getattr(ex, 'where', ''), 'caller-' + path)


class GridModel(Model):
    """a strictly rising axis of concretely known length (A[i] = 2 i), a query at a concrete position (on a knot: even, in a gap: odd)
    and one arbitrary value for every float-to-index cast (the guess): every loop bound is concrete, the lookup is evaluated as written"""
    def __init__(self, n, guess):
        super().__init__()
        self.n, self.guess = n, guess
        self.allow_opaque = False
        self.casts = 0

    def call(self, name, cal, args, e, frame):
        last = name.split('::')[-1]
        a0 = deref_all(args[0]) if args else None
        nd = cal.get('crate') == 'ndarray' or 'ndarray::' in (cal.get('resolved') or '')
        if nd and isinstance(a0, Obj) and a0.kind == 'vec':
            if last in ('len', 'dim', 'len_of'):
                return Num(self.n)
            if last == 'index':
                i = deref_all(args[1])
                if isinstance(i, Num) and i.const() is not None and i.const().denominator == 1:
                    k = int(i.const())
                    if not (0 <= k < self.n):
                        raise Diverge("index %d out of bounds of an axis of length %d" % (k, self.n), e)
                    return Ref(ValPlace(Num(2 * k)))
                raise Unsupported("axis indexed with %r" % (i,), e)
            if last in ('first', 'last'):
                return SOME(Ref(ValPlace(Num(0 if last == 'first' else 2 * (self.n - 1)))))
        ga = cal.get('gargs', [])
        if name == 'num_traits::cast' or name in ('num_traits::ToPrimitive::to_usize', 'num_traits::cast::ToPrimitive::to_usize'):
            v = deref_all(args[0])
            to_usize = (name != 'num_traits::cast') or (len(ga) == 2 and ga[1] == 'usize' and ga[0] != 'usize')
            if to_usize:
                self.casts += 1
                return SOME(Num(self.guess))           # the float arithmetic of the guess is not decided: any index
            if isinstance(v, Num):
                return SOME(v)
        return NotImplemented

    def plain_loop(self, body, frame, e):
        for _ in range(4 * self.n + 16):
            try:
                self.interp.eval(body, Frame(frame))
            except BreakEx as b:
                return b.v if b.v is not None else Unit()
            except ContinueEx:
                continue
        raise Diverge("the search does not end within 4 len + 16 iterations on an axis of length %d" % self.n, e)


def _only_panics(node):
    if node is None:
        return True
    for x in walk(node):
        if x.get('k') == 'Call' and any(w in ((x.get('callee') or {}).get('path') or '') for w in ('panic', 'unimplemented', 'unreachable', 'begin_panic', 'assert_failed')):
            return True
    return False


def unexecuted_branches(lib, body, log):
    """`if` branches of `body` and of the crate functions it (transitively) calls that no evaluation recorded in `log` has taken"""
    seen, todo, out = set(), [body], []
    while todo:
        b = todo.pop()
        if id(b) in seen:
            continue
        seen.add(id(b))
        for x in walk(b['root']):
            if x.get('k') == 'Call':
                cb = lib.body(strip_generics((x.get('callee') or {}).get('path') or ''))
                if cb is not None:
                    todo.append(cb)
            if x.get('k') == 'If':
                sp = x.get('sp')
                if (sp, True) not in log and not _only_panics(x['then']):
                    out.append("then-branch at %s" % line_of(x))
                if x.get('else') is not None and (sp, False) not in log and not _only_panics(x['else']):
                    out.append("else-branch at %s" % line_of(x))
    return sorted(set(out))


def bounded_grid(chk, lib, body, why):
    """fallback when the comparison skeleton cannot be extracted (recursion, state in unmodelled structures ...): the lookup is
    evaluated as written for every axis length 2..6, every query position (on each knot, in each gap, below, above) and every value of the
    guess; the index returned must be the clamp / the bracketing interval.  Exhaustive up to that size only, and reported as such."""
    maxn = 7 if chk.tier == 'thorough' else 6
    chk.rule('R11.7', "bounded fallback (only when the comparison skeleton of R11.1-R11.6 cannot be extracted): for every axis length 2..%d, every query position "
                      "and every value of the guess, get_lower_index evaluated as written returns 0 for q <= A[0], len-2 for q >= A[len-1] and otherwise the i with A[i] <= q < A[i+1], "
                      "without panicking" % maxn)
    chk.note('c11_route', 'bounded grid up to length %d, because: %s' % (maxn, why))
    runs = bad = 0
    first_bad = None
    branch_log = set()
    for n in range(2, maxn + 1):
        for v in range(-1, 2 * (n - 1) + 2):
            want = 0 if v <= 0 else (n - 2 if v >= 2 * (n - 1) else v // 2)
            for g in range(0, n):
                m = GridModel(n, g)
                m.branch_log = branch_log
                it = Interp(lib, m)
                runs += 1
                try:
                    out = deref_all(it.call_def(body['def'], [Ref(ValPlace(Obj('vec'))), Num(v)]))
                    got = int(out.const()) if isinstance(out, Num) and out.const() is not None else repr(out)
                except Diverge as ex:
                    got = 'panic: %s' % ex
                except Unsupported as ex:
                    chk.ob('R11.7', "get_lower_index evaluates on the grid (len %d, position %d, guess %d): %s" % (n, v, g, ex), False, ex.where or body['span'],
                           'grid-unrecognised')
                    return
                if got != want:
                    bad += 1
                    if first_bad is None:
                        first_bad = "len %d, query at position %s, guess %d: returned %s, expected %d" % (
                            n, ('A[%d]' % (v // 2)) if v % 2 == 0 and 0 <= v <= 2 * (n - 1) else ('between A[%d] and A[%d]' % (v // 2, v // 2 + 1)), g, got, want)
    chk.ob('R11.7', "all %d (length, query position, guess) combinations return the bracketing interval (first deviation: %s)" % (runs, first_bad),
           bad == 0, body['span'], 'grid')
    chk.floor('R11.7', 'grid runs', runs, 200)
    # a bounded exploration says nothing about code it never executed (a path taken only on long axes): every branch of the lookup and of
    # the crate functions it calls must have been taken by some grid point, apart from branches that only panic
    dead = unexecuted_branches(lib, body, branch_log)
    chk.ob('R11.7', "every branch of the lookup is executed by some grid point, so the bounded exploration speaks for the whole function (never executed: %s)" %
           (', '.join(dead[:4]) or 'none'), not dead, body['span'], 'grid-covers-all-branches')
    chk.level = 'exploration'


def run(chk):
    lib = load(chk)
    analyse(chk, lib)


def analyse(chk, lib, set_text=True):
    technique = ("path enumeration over the comparison skeleton of get_lower_index (each comparison of the query with an axis value "
                     "is a two-way case split recorded as an order fact) + Floyd-Hoare check of the binary-search loop invariant "
                     "A[lo] <= q < A[hi]; the float guess and the midpoint are arbitrary indices")
    if set_text:
        chk.technique = technique
    chk.rule('R11.1', "clamps: the function returns 0 exactly on the path where q <= A[0] was established, and len-2 exactly where additionally q >= A[len-1]; before any arithmetic")
    chk.rule('R11.2', "the guessed index g is returned only under the facts A[g] <= q and q < A[g+1] for the same g, and A[g+1] is read only after A[g] <= q is known")
    chk.rule('R11.3', "binary search: the invariant A[lo] <= q < A[hi] holds on loop entry on every path and is preserved by every path through the loop body (branch polarity)")
    chk.rule('R11.4', "the only values returned are 0 (left clamp), len-2 (right clamp), an accepted guess, and the lower bound of the final pair")
    chk.rule('R11.6', "progress of the binary search: it continues exactly under lower + 1 < upper, probes the integer midpoint (strictly between the bounds by the floor-division lemma), reads only there: "
                      "hence terminates, never probes out of bounds, and returns lower <= upper - 1 <= len - 2")
    chk.rule('R11.5', "get_index_left_of of both interpolators passes the matching axis and the unmodified query (shared with C18 R18.3)")
    chk.assumptions += [
        "NOT decided (runtime floating-point arithmetic): that the even-spacing guess is a valid index (<= len-1) and does not overflow, the `unimplemented!` casts on NaN / huge values",
        "integer lemma used for R11.6: for lo + 1 < hi, lo < lo + (hi - lo) / 2 < hi (floor division)",
        "with a strictly rising NaN-free axis and a non-NaN query the order facts are total: not(A[k] <= q) implies q < A[k]",
        "on loop exit (not lo+1 < hi) together with A[lo] <= q < A[hi] and strict monotonicity gives hi = lo+1, i.e. the returned lo brackets q",
    ]
    body = anchor(chk, lib, GLI, 'R11.1')
    if body is None:
        return
    paths = explore(lib, body)
    chk.note('paths', len(paths))
    unsup = [out for m_, outcome, out in paths if outcome == 'unsupported']
    if unsup:
        bounded_grid(chk, lib, body, "the lookup is written in a form the path enumeration does not cover (%s)" % unsup[0])
        _callers(chk, lib)
        if set_text:
            chk.explanation = ("get_lower_index is written in a form from which the comparison skeleton cannot be extracted; it was instead evaluated as written on "
                               "every (axis length <= 6/7, query position, guess value) combination: bounded, not a proof for all lengths.")
        return
    chk.floor('R11.4', 'paths through the lookup', len(paths), 5)
    kinds = []
    loop_reports = []
    for m, outcome, out in paths:
        desc = '; '.join('%s=%s' % (l, d) for l, d in m.trace)
        if outcome == 'unsupported':
            chk.ob('R11.4', "the lookup is a comparison skeleton: %s" % out, False, out.where, 'unrecognised-' + str(out.why)[:80])
            continue
        if outcome == 'panic':
            chk.ob('R11.4', "path [%s] panics: %s" % (desc, out), False, out.where, 'panic-' + desc)
            continue
        if not isinstance(out, Num):
            chk.ob('R11.4', "path [%s] returns an index" % desc, False, body['span'], 'ret-' + desc)
            continue
        r = str(out.r)
        nm2 = str(Rat.atom('n') - 2)
        if m.loop is not None:
            loop_reports.append(m.loop)
        if r == '0' and m.knows('0', 'A>=q') and not m.loop and not m.guesses:
            kinds.append('left-clamp')
            chk.ob('R11.1', "path [%s] returns 0 with q <= A[0] established, before any arithmetic" % desc, True, body['span'], 'left-clamp')
        elif r == nm2 and m.knows(str(Rat.atom('n') - 1), 'A<=q') and m.knows('0', 'A<q') and not m.loop and not m.guesses:
            kinds.append('right-clamp')
            chk.ob('R11.1', "path [%s] returns len-2 with q > A[0] and q >= A[len-1] established, before any arithmetic" % desc, True, body['span'], 'right-clamp')
        elif r.startswith('g') and '*' not in r:
            kinds.append('guess')
            g1 = str(Rat.atom(r) + 1)
            chk.ob('R11.2', "path [%s] returns the guess %s with A[%s] <= q and q < A[%s] established" % (desc, r, r, g1),
                   m.knows(r, 'A<=q') and m.knows(g1, 'A>q'), body['span'], 'guess-accept')
        elif r == 'lo*':
            kinds.append('search')
            chk.ob('R11.4', "path [%s] returns the lower bound of the final (lower, upper) pair" % desc, True, body['span'], 'search-return')
        else:
            chk.ob('R11.4', "path [%s] returns %s, which is none of: 0 under q<=A[0], len-2 under q>=A[len-1], an accepted guess, the final lower bound" %
                   (desc, r), False, body['span'], 'ret-%s-%s' % (r, desc))
        # guarded read of A[g+1]
        for k, facts, where in m.reads:
            if k.startswith('1 + g') or (k.startswith('g') and '+' in k):
                base = k.replace('1 + ', '')
                chk.ob('R11.2', "A[%s] is read only after A[%s] <= q is known (path [%s])" % (k, base, desc),
                       'A<=q' in facts.get(base, set()), where, 'guarded-read')
    for need in ('left-clamp', 'right-clamp', 'guess', 'search'):
        chk.ob('R11.4', "a path of kind `%s` exists (kinds found: %s)" % (need, sorted(set(kinds))), need in kinds, body['span'], 'kind-' + need)
    chk.ob('R11.3', "the binary-search loop was reached on at least 2 paths (after a guess above / below the query)", len(loop_reports) >= 2,
           body['span'], 'loop-reached')
    seen_states = set()
    for rep in loop_reports:
        lo0, hi0 = rep['entry']
        chk.ob('R11.3', "on loop entry with (lower, upper) = (%s, %s): A[lower] <= q and q < A[upper] are established facts" % (lo0, hi0),
               all(rep['establish']), rep['where'], 'establish-%s-%s' % (lo0, hi0))
        seen_states.add((lo0, hi0))
        nstep = 0
        for st in rep['steps']:
            if st['exit']:
                continue
            nstep += 1
            lo1, hi1 = st['state']
            dsc = '; '.join('%s=%s' % (l, d) for l, d in st['decisions'])
            chk.ob('R11.3', "loop body from (lo, hi) under [%s] leads to (%s, %s) with A[%s] <= q and q < A[%s] established (invariant preserved)" %
                   (dsc, lo1, hi1, lo1, hi1), all(st['inv']), rep['where'], 'preserve-%s-%s' % (lo1, hi1))
            chk.ob('R11.3', "loop body updates exactly one bound to the probed index", (lo1 == 'lo') != (hi1 == 'hi'), rep['where'], 'one-bound-%s-%s' % (lo1, hi1))
        chk.ob('R11.3', "loop body has both continuation paths (found %d) and an exit path" % nstep,
               nstep == 2 and any(s['exit'] for s in rep['steps']), rep['where'], 'body-paths')
        # R11.6 progress: the probe lies strictly between the bounds, so the interval shrinks and every probe is a valid index
        for st in rep['steps']:
            if st['exit']:
                cond = [d for d in st['decisions'] if d[0].startswith('index ')]
                chk.ob('R11.6', "the loop exits exactly when not (lower + 1 < upper) (exit decisions: %s)" % cond,
                       cond == [('index pos(-1 + hi - lo)', False)] and not st.get('reads'), rep['where'], 'loop-exit-cond')
                if st.get('value') is not None:
                    chk.ob('R11.4', "the value the loop yields on exit is the lower bound (got %s)" % st['value'], st['value'] == 'lo', rep['where'], 'loop-exit-value')
                continue
            cond = [d for d in st['decisions'] if d[0].startswith('index ')]
            lo1, hi1 = st['state']
            probe = hi1 if lo1 == 'lo' else lo1
            chk.ob('R11.6', "the loop continues exactly under lower + 1 < upper (decisions: %s)" % cond, cond == [('index pos(-1 + hi - lo)', True)],
                   rep['where'], 'loop-cond-%s' % probe)
            chk.ob('R11.6', "the probed index is the midpoint (lower + upper) / 2 in integer arithmetic (got %s): with lower + 1 < upper it lies strictly "
                            "between the bounds, so the interval shrinks (termination) and the probe is a valid index" % probe,
                   probe == '1/2*hi + 1/2*lo', rep['where'], 'midpoint-%s' % probe)
            chk.ob('R11.6', "the only axis read of the loop body is at the probed index (reads: %s)" % st['reads'], set(st['reads']) == {probe}, rep['where'],
                   'loop-reads-%s' % probe)
    chk.note('loop_entry_states', sorted(seen_states))
    _callers(chk, lib)
    for m, outcome, out in paths[:6]:
        chk.sample({"path": [('%s' % l, d) for l, d in m.trace], "returns": str(out.r) if isinstance(out, Num) else str(out)})
    if set_text:
      chk.explanation = ("Only the comparison skeleton is decided: all %d paths of get_lower_index were enumerated with each query/axis comparison as a "
                       "case split; returns are the two clamps (under their establishing facts), an accepted guess (bracket check for the same index, "
                       "guarded read), or the lower bound after the binary search, whose invariant A[lo] <= q < A[hi] is established on every "
                       "entry path and preserved by both body paths. Termination, midpoint arithmetic and the validity of the float guess are "
                       "runtime arithmetic and NOT decided by this technique." % len(paths))
