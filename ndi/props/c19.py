"""C19 - the unchecked cast of the rank-1 fast path only relabels identical types."""
from .common import *
from ..absint import deref_all

LEVEL = 'proof'


def run(chk):
    lib = load(chk)
    f = lib.f
    chk.technique = ("type-level proof over a closed set: generic-MIR guard dominance + compiler-normalised "
                     "type equality for every implementor of the sealed dimension traits")
    chk.rule('R19.1', "who-may-call: cast_unchecked is a non-public unsafe fn; every call site is inside the "
                      "true branch of `TypeId::of::<P>() == TypeId::of::<C>()`")
    chk.rule('R19.2', "for every call site and every admissible implementor D of ndarray::RemoveAxis/Dimension, "
                      "A[P:=C, D:=impl] and B[P:=C, D:=impl] normalise to the same type (decided by rustc)")
    chk.rule('R19.3', "cast_unchecked itself is ManuallyDrop::new + one pointer read (identity move when A == B)")
    chk.assumptions += [
        "ndarray's Dimension/RemoveAxis are sealed (private_decl!), so the implementor list reported by rustc is closed",
        "parametricity: the cast's type arguments depend on storage and element type only as opaque parameters",
    ]
    cast = lib.body('cast_unchecked')
    if not chk.require(cast is not None, 'R19.1', 'anchor-cast_unchecked', 'src/lib.rs',
                       "the fn `cast_unchecked` (the only unsafe primitive of the crate) must exist"):
        return
    chk.ob('R19.1', "cast_unchecked is declared `unsafe fn`", cast.get('unsafe') is True, cast['span'], 'cast-unsafe')
    chk.ob('R19.1', "cast_unchecked is not public (visibility %s)" % cast.get('vis'),
           cast.get('vis') != 'Public', cast['span'], 'cast-private')

    # --- R19.3 body shape
    allowed = {'std::mem::ManuallyDrop::new', 'std::ops::Deref::deref', 'std::ptr::const_ptr::read',
               'core::ptr::const_ptr::read', 'std::ptr::read', 'core::ptr::read'}
    seen = []
    for x in calls(cast['root']):
        p = strip_generics(x['callee']['path']).replace('<impl *const T>::', '')
        seen.append(p)
        chk.ob('R19.3', "callee `%s` inside cast_unchecked is one of ManuallyDrop::new / deref / ptr read" % p,
               p in allowed, line_of(x), 'cast-body-callee-' + p)
    chk.ob('R19.3', "exactly one ManuallyDrop::new and one pointer read in cast_unchecked (found %s)" % seen,
           seen.count('std::mem::ManuallyDrop::new') == 1 and
           sum(1 for s in seen if s.endswith('read')) == 1, cast['span'], 'cast-body-shape')
    chk.sample({"cast_unchecked_callees": seen})

    # --- call sites in THIR with their dominating guard
    sites = []
    for d, b in lib.bodies.items():
        for x, anc in walk_anc(b.get('root')):
            if x.get('k') == 'Call' and x.get('callee') and lib.is_role(strip_generics(x['callee']['path']), 'cast_unchecked'):
                guard = None
                for (pn, slot) in reversed(anc):
                    if pn.get('k') == 'If' and slot == 'then':
                        g = _typeid_guard(pn['cond'])
                        if g:
                            guard = g
                            break
                sites.append((d, x, guard))
    chk.floor('R19.1', 'cast_unchecked call sites', len(sites), 5)
    obl_by_key = {}
    for c in f['casts']:
        obl_by_key.setdefault((c['in'], c['A'], c['B']), []).append(c)
    chk.ob('R19.2', "driver produced obligations for every THIR call site (%d vs %d)" % (len(f['casts']), len(sites)),
           len(f['casts']) == len(sites), key='site-count-agree')
    n_adm = 0
    for d, x, guard in sites:
        a, b_ = x['callee']['gargs'][0], x['callee']['gargs'][1]
        where = line_of(x)
        role = "%s<%s -> %s>" % (strip_generics(d), _short(a), _short(b_))
        if not chk.ob('R19.1', "call site %s is dominated by the true edge of a TypeId equality guard" % role,
                      guard is not None, where, 'unguarded-' + role):
            continue
        P, C = guard
        cs = obl_by_key.get((d, a, b_), [])
        if not chk.ob('R19.2', "obligations exist for site %s" % role, len(cs) >= 1, where, 'no-obligations-' + role):
            continue
        c = cs[0]
        chk.ob('R19.2', "all implementors of the dimension traits are concrete types (closed enumeration)",
               c['generic_impl'] is False, where, 'generic-impl')
        gs = [g for g in c['guards'] if g['P'] == P and g['C'] == C]
        if not chk.ob('R19.2', "guard (%s == %s) of site %s matches a TypeId::of pair seen by the driver" % (P, C, role),
                      len(gs) == 1, where, 'guard-mismatch-' + role):
            continue
        adm = [o for o in gs[0]['obligations'] if o['admissible']]
        chk.ob('R19.2', "site %s: at least one admissible instantiation (found %d)" % (role, len(adm)),
               len(adm) >= 1, where, 'no-admissible-' + role)
        for o in adm:
            n_adm += 1
            inst = ", ".join(o['inst'])
            ok = o['equal'] and not o.get('norm_failed')
            chk.ob('R19.2', "site %s with [%s]: A = %s ; B = %s" % (role, inst, _short(o['A']), _short(o['B'])),
                   ok, where, 'unequal-%s-%s' % (role, inst), o)
            if len(chk.samples) < 12:
                chk.sample({"site": role, "inst": o['inst'], "A": o['A'], "B": o['B'], "equal": o['equal']})
    chk.floor('R19.2', 'admissible (site, implementor) obligations', n_adm, 7 * 2 + 6 * 3)
    chk.rule('R19.5', "the fast path is unobservable: for every sink outcome (all elements succeed / one fails and the next succeeds) the rank-1 fast path and the general per-element path "
                      "return the same result class, call the strategy for the same elements with the same per-element arguments, and return the same error")
    from . import entry as E
    for lead in (1, 2):
        for name in ('interp_array', 'interp_array_into'):
            for sink in ('ok', 'err'):
                rf = E.run_entry(lib, lead, name, {'fast': True, 'sink': sink, 'shape_ok': True, 'qshape_ok': True})
                rg = E.run_entry(lib, lead, name, {'fast': False, 'sink': sink, 'shape_ok': True, 'qshape_ok': True})
                key = 'fast-vs-general-%dd-%s-%s' % (lead, name, sink)
                if rf is not None and rg is not None and 'unsupported' in (rf.outcome, rg.outcome):
                    # outside the reviewed entry-point surface: the agreement of the two paths cannot be decided -> fail closed (round 8: a contiguous-query shortcut
                    # walking `as_slice_memory_order` inside the fast path was left to C09/C13 alone)
                    bad = rf if rf.outcome == 'unsupported' else rg
                    chk.ob('R19.5', "%s: the %s path stays within the reviewed entry-point surface (%s)" % (key, 'fast' if bad is rf else 'general', bad.exc),
                           False, (bad.exc.where if bad.exc is not None and hasattr(bad.exc, 'where') else ''), key + '-unrecognised')
                    continue
                if rf is None or rg is None or rf.outcome != 'return' or rg.outcome != 'return':
                    chk.ob('R19.5', "%s: both paths evaluate (fast: %s %s, general: %s %s)" % (key, rf and rf.outcome, rf and rf.exc, rg and rg.outcome, rg and rg.exc),
                           False, (rf.exc.where if rf is not None and rf.exc else ''), key + '-evaluates')
                    continue
                cls = lambda r: ('ok' if E.is_ok(r.value) else 'err' if E.is_err(r.value) else 'other')
                same_err = (sink == 'ok') or (E.is_err(rf.value) and E.is_err(rg.value) and deref_all(rf.value.fields['0']) is rf.m.err_token and
                                              deref_all(rg.value.fields['0']) is rg.m.err_token)
                ok = (cls(rf) == cls(rg) and [s['elem'] for s in rf.m.sinks] == [s['elem'] for s in rg.m.sinks] and
                      [s['queries'] for s in rf.m.sinks] == [s['queries'] for s in rg.m.sinks] and same_err)
                chk.ob('R19.5', "%s: fast path and general path agree (result %s / %s, strategy calls for elements %s / %s)" %
                       (key, cls(rf), cls(rg), [s['elem'] for s in rf.m.sinks], [s['elem'] for s in rg.m.sinks]), ok, '', key)
    if chk.tier == 'thorough':
        from .. import witness
        witness.mono_matrix(chk, cast_name=lib.aliases.get('cast_unchecked', 'cast_unchecked').split('::')[-1])
    chk.note('implementors', f['traits'])
    chk.explanation = (
        "Generic proof: each of the %d call sites of the private unsafe fn cast_unchecked lies in the then-branch of "
        "`TypeId::of::<Dq>() == TypeId::of::<Ix1>()`; under the substitution Dq := Ix1 and for every implementor D of "
        "the sealed ndarray dimension traits that satisfies the item's where-clauses, rustc normalises source and "
        "destination type of the cast to the same type (%d obligations). Storage and element type are opaque "
        "parameters (parametricity). What is decided is the typing claim of C19; the bit-identity of fast and general "
        "path results is covered structurally by C09 (same sink, same pairing)." % (len(sites), n_adm))


def _typeid_guard(cond):
    """cond == `TypeId::of::<P>() == TypeId::of::<C>()` -> (P, C) (either order)"""
    c = peel(cond)
    if not (c.get('k') == 'Call' and is_call(c, 'PartialEq::eq')):
        return None
    tys = []
    for a in c['args']:
        a = peel(a)
        if a.get('k') == 'Call' and strip_generics(a['callee']['path']).endswith('TypeId::of'):
            tys.append(a['callee']['gargs'][0])
        else:
            return None
    if len(tys) != 2:
        return None
    import re
    isparam = [bool(re.fullmatch(r'[A-Za-z_][A-Za-z0-9_]*', t)) for t in tys]
    if isparam[0] and not isparam[1]:
        return (tys[0], tys[1])
    if isparam[1] and not isparam[0]:
        return (tys[1], tys[0])
    return None


def _short(t):
    return (t.replace('ndarray::', '').replace('Dim<[usize; ', 'Ix').replace(']>', '')
            .replace('Dim<IxDynImpl>', 'IxDyn'))
