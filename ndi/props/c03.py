"""C03 - the spline honours the selected boundary conditions (unique spline)."""
from .common import *
from . import spline as S

LEVEL = 'other'


def run(chk):
    lib = load(chk)
    chk.technique = ("row functionals of every boundary arm extracted from the typed tree; each must vanish on the admissible family of its condition and not on a witness "
                     "outside it (exact polynomial identities); periodic arms compared with the cyclically re-instantiated interior stencil")
    chk.rule('R3.1', "selection: whole-set kinds and per-lane (Individual) kinds reach the solver as the same kind; Natural/Clamped become SecondDeriv(0)/FirstDeriv(0)")
    chk.rule('R3.2', "for each end and each kind the boundary row, as a linear functional, vanishes on the admissible family (NotAKnot: one cubic on the two end intervals; "
                     "FirstDeriv(v): S'(end) = v; SecondDeriv(v): cubic on the end interval with S''(end) = v) and does not vanish on a witness outside it")
    chk.rule('R3.3', "3-point NotAKnot arm: all rows vanish on the parabola through the points and the determinant has one sign in the interval lengths (unique solution)")
    chk.rule('R3.4', "Periodic: row 0 and the closing row are the interior stencil instantiated cyclically, the condensation (second right-hand side, k[n-2] formula, k = u + k[n-2] v, k[n-1] = k[0]) is consistent; the 3-point arm satisfies both cyclic stencils")
    chk.assumptions += ["'agrees up to rounding' is NOT decided (exact arithmetic reading)",
                        "uniqueness of the tridiagonal solution: diagonal dominance (textbook); C2 interior rows and the solver itself: C02"]
    if anchor(chk, lib, S.SFK, 'R3.2') is None:
        return
    n1 = S.general_arm(chk, lib, 'R3.2', 'R3.2', None)
    n2 = S.general_arm(chk, lib, 'R3.2', 'R3.2', 3)
    chk.floor('R3.2', 'tridiagonal systems extracted (left x right kinds, n symbolic and n = 3)', n1 + n2, 49)
    S.check_toplevel_kinds(chk, lib, 'R3.1')
    S.check_dispatch(chk, lib, 'R3.1', 'R3.1')
    S.check_dispatcher(chk, lib, 'R3.1')
    chk.rule('R3.5', "reader-based oracle: each boundary row is proportional to the boundary quantity computed from the end piece(s) as the evaluation code reads them: "
                     "S''(end) [- v], S'(end) [- v], or the jump of S''' at the first interior node reduced by that node's C2 row")
    S.check_rows_against_reader(chk, lib, 'R3.5', 'R3.5', do_interior=False)
    S.check_three_point(chk, lib, 'R3.3')
    S.check_periodic(chk, lib, 'R3.4', 'R3.4')
    chk.explanation = ("Every boundary arm of solve_for_k (5 kinds x 2 ends, the 3-point parabola arm, both periodic arms; n symbolic >= 4 and n = 3) was extracted "
                       "as a row functional and tested against its condition's admissible family and an outside witness; dimension counting makes the row THE "
                       "selected condition (possibly reduced by the neighbouring interior row) up to scale. This is the rule that reported defect D1 "
                       "(right NotAKnot row: residual proportional to h[n-2] - h[n-3]) before its fix.")
