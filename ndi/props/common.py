"""Shared anchors: public items located by resolved path; helpers by call-graph role."""
from ..thir import *
from .. import facts as _facts

CRATE = 'ndarray_interp'

A_INTERP1D = 'Interp1D'
A_INTERP2D = 'Interp2D'
ENTRY_1D = ['interp_scalar', 'interp', 'interp_into', 'interp_array', 'interp_array_into']
ENTRY_2D = ENTRY_1D
STRAT_1D = ['<Linear as Interp1DStrategy>::interp_into',
            '<CubicSplineStrategy as Interp1DStrategy>::interp_into']
STRAT_2D = ['<Bilinear as Interp2DStrategy>::interp_into']
SINK_1D = 'Interp1DStrategy::interp_into'
SINK_2D = 'Interp2DStrategy::interp_into'


def load(chk):
    f = _facts.lib_facts()
    chk.note('repo_hash', f.get('_repo_hash'))
    chk.note('facts_cached', f.get('_cached'))
    chk.note('bodies_in_crate', len(f['bodies']))
    chk.note('mir_bodies_in_crate', len(f['mir']))
    chk.trusted += ["rustc nightly front end (type checker, THIR/MIR construction) as driven by /verif/driver",
                    "API contracts of ndarray 0.16 / num-traits / std as listed in the assumptions"]
    lib = Lib(f)
    from .. import roles
    lib.aliases = roles.resolve(lib)
    from .. import layout
    layout.bind(lib)
    chk.note('helpers_located_by_role', lib.aliases or 'all under their usual names')
    return lib


def anchor(chk, lib, path, rule='E0'):
    b = lib.body(path)
    chk.require(b is not None, rule, 'anchor-' + path, path,
                "public anchor `%s` must exist exactly once in the crate" % path)
    return b
