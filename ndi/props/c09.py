"""C09 - all query entry points agree; result shape = query shape ++ trailing data dims."""
from .common import *
from .entry import *
from .. import witness

LEVEL = 'other'


def run(chk):
    lib = load(chk)
    chk.technique = ("single-sink / pairing rules over the entry points evaluated on a symbolic shape domain + result-type witnesses "
                     "(compile-time) for every (data dim, query dim) pair")
    chk.rule('R9.1', "single sink: every entry point produces its output only by handing (a view of) the output storage to "
                     "Strat::interp_into - exactly once per query element - and applies no other mutator to it")
    chk.rule('R9.2', "pairing: the element handed to the sink and the sub-view it fills carry the same index (fast path: one Zip over "
                     "xs and axis_iter_mut(Axis(0)); general path: index and value of one indexed_iter item; 2-D: y read at that index)")
    chk.rule('R9.3', "get_buffer_shape(dq) == dq ++ data.shape()[K..], K = number of interpolated axes")
    chk.rule('R9.4', "allocating variants allocate exactly that shape (resp. data dims minus K), pass the full view to the sink / the _into variant, and return that array on Ok")
    chk.rule('R9.5', "interp_scalar: 1-element buffer -> 0-d view -> sink -> element 0 of the same buffer")
    chk.rule('R9.6', "result types: Array<_, Dq ++ (D minus K)> for every data/query dimension pair, dynamic when the sum exceeds 6 (compile-time witnesses)")
    chk.rule('R9.8', "the built-in strategies fill the target lane by lane inside one Zip with the lane views of the data (pairing by logical index, "
                     "independent of the memory layout of a caller-supplied buffer): what a *_into variant writes is what the allocating variant returns")
    chk.rule('R9.7', "fast path and general path are two instances of R9.1/R9.2 on the same sink; the cast between them is an identity (C19)")
    chk.assumptions += ["value equality of the entry points follows from single sink + pairing given a deterministic strategy (C17)",
                        "indexed_iter yields every index of the query array exactly once; axis_iter_mut(Axis(0)) yields the sub-views in index order"]
    runs = all_runs(lib)
    chk.floor('R9.1', 'entry point scenario runs', len(runs), 48)
    for r in runs:
        key = '%dd-%s-%s' % (r.lead, r.name, ','.join('%s=%s' % kv for kv in sorted(r.scn.items())))
        where = r.exc.where if r.exc else ''
        if r.outcome == 'unsupported':
            chk.ob('R9.1', "entry point %s is within the reviewed surface: %s" % (key, r.exc), False, where, key + '-unrecognised')
            continue
        if r.outcome == 'panic':
            continue
        elems = [x['elem'] for x in r.m.sinks]
        batch = r.name in ('interp_array', 'interp_array_into')
        want_elems = ([None] if not batch else (['e', 'e2'] if r.scn['sink'] == 'ok' else ['e']))
        chk.ob('R9.1', "%s: exactly one sink call per query element (calls for elements %s, expected %s), each with the interpolator's own "
                       "strategy and the interpolator itself" % (key, elems, want_elems),
               elems == want_elems and all(x['self_is_strategy_field'] and x['interp_is_self'] for x in r.m.sinks),
               where, key + '-single-sink')
        if not r.m.sinks:
            continue
        s = r.m.sinks[0]
        t = s['target']
        want_q = ['qx', 'qy'][:r.lead] if r.name in ('interp_scalar', 'interp', 'interp_into') else ['xs[e]', 'ys[e]'][:r.lead]
        chk.ob('R9.2', "%s: the sink receives the unmodified query value(s) %s (got %s)" % (key, want_q, s['queries']),
               s['queries'] == want_q, s['where'], key + '-query')
        if r.name in ('interp_array', 'interp_array_into'):
            lead = t.d.get('lead')
            want_lead = 'axis0[e]' if r.scn['fast'] else 'qidx'
            chk.ob('R9.2', "%s: the target is the sub-view selected by the same element index as the query value (%s)" % (key, lead),
                   lead == want_lead, s['where'], key + '-pairing')
        if r.name == 'interp_array' and r.scn['sink'] == 'ok':
            v = deref_all(r.value.fields['0']) if is_ok(r.value) else None
            want = '[q0, T*]' if r.scn['fast'] else '[Q*, T*]'
            ok = isinstance(v, Obj) and v.kind == 'ndarr' and v.d['role'] == 'alloc' and repr(v.d['shape']) == want and t.d['root'] is v
            chk.ob('R9.4', "%s: returns the freshly allocated array of shape %s whose sub-views were handed to the sink (got %r)" % (key, want, v),
                   ok, where, key + '-alloc')
            chk.ob('R9.3', "%s: get_buffer_shape(xs.raw_dim()) = query dims ++ data dims after the %d interpolated axes" % (key, r.lead),
                   isinstance(v, Obj) and repr(v.d['shape']) == want, where, key + '-buffer-shape')
        if r.name == 'interp' and r.scn['sink'] == 'ok':
            v = deref_all(r.value.fields['0']) if is_ok(r.value) else None
            ok = isinstance(v, Obj) and v.kind == 'ndarr' and repr(v.d['shape']) == '[T*]' and t.d['root'] is v and t.d['lead'] is None
            chk.ob('R9.4', "%s: allocates data dims minus the %d interpolated axes, hands the full view to the sink and returns that array" % (key, r.lead),
                   ok, where, key + '-alloc')
        if r.name == 'interp_scalar':
            ok_t = isinstance(t, Obj) and t.d.get('rootkind') == 'scalarbuf' and repr(t.d['shape']) == '[]'
            chk.ob('R9.5', "%s: the sink target is the 0-d view of the 1-element stack buffer" % key, ok_t, where, key + '-0d')
            if r.scn['sink'] == 'ok':
                v = deref_all(r.value.fields['0']) if is_ok(r.value) else None
                chk.ob('R9.5', "%s: the value returned is element 0 of that buffer after the sink wrote it (got %r)" % (key, v),
                       isinstance(v, Num) and str(v.r) == 'sink_out', where, key + '-elem0')
        if r.name == 'interp_array_into' and r.scn['sink'] == 'ok' and r.scn.get('shape_ok', True):
            chk.ob('R9.4', "%s: writes go to the caller's buffer (root %s) and Ok(()) is returned" % (key, t.d['rootkind']),
                   t.d['rootkind'] == 'caller' and is_ok(r.value), where, key + '-into')
    from .c14 import strategy_target_alignment
    strategy_target_alignment(chk, lib, 'R9.8')
    # R9.7: both paths of interp_array reach the same sink with the same pairing
    for lead in (1, 2):
        a = [r for r in runs if r.lead == lead and r.name == 'interp_array' and r.scn['sink'] == 'ok' and r.scn.get('qshape_ok', True)]
        fast = [r for r in a if r.scn['fast']]
        gen = [r for r in a if not r.scn['fast']]
        ok = (len(fast) == 1 and len(gen) == 1 and fast[0].outcome == gen[0].outcome == 'return' and
              len(fast[0].m.sinks) == len(gen[0].m.sinks) == 2 and fast[0].m.sinks[0]['queries'] == gen[0].m.sinks[0]['queries'] and
              any(ev[0] == 'cast' for ev in fast[0].m.events) and not any(ev[0] == 'cast' for ev in gen[0].m.events))
        chk.ob('R9.7', "%d-D: fast path (through the identity cast) and general path call the same sink with the same per-element arguments" % lead,
               ok, '', 'same-sink-%dd' % lead)
    if chk.tier == 'thorough' or True:
        witness.result_types(chk)
    chk.sample({"1d interp_array general": "sink(target = buffer[e.., full trailing] : [T*], query = xs[e]) ; returns alloc [Q*, T*]"})
    chk.explanation = ("Every entry point of Interp1D/Interp2D was evaluated with an opaque strategy over a symbolic shape domain (%d runs): "
                       "output is produced only by the strategy sink, once per element, on the sub-view carrying the element's own index; "
                       "shapes are query dims ++ trailing dims; allocating variants return the array they filled; interp_scalar returns "
                       "element 0 of the buffer the sink wrote. Result types are pinned by compile-time witnesses." % len(runs))


def query_delivery(chk, lib, rule, lead):
    """The kernel identities of C01 / C04 speak about 'the query': every entry point of the %d-D interpolator must hand the strategy the unmodified query value(s)
    of ONE element - for the array entry points the values of all query arrays at the same logical index, written to the sub-view of that index (round 8: a 2-D batch
    loop that read y from `ys.as_slice_memory_order()` by enumeration count paired x[i] with another element's y)."""
    n = 0
    for r in all_runs(lib):
        if r.lead != lead or r.scn.get('sink') != 'ok' or not r.scn.get('shape_ok', True) or not r.scn.get('qshape_ok', True):
            continue
        key = 'delivery-%dd-%s-%s' % (r.lead, r.name, ','.join('%s=%s' % kv for kv in sorted(r.scn.items())))
        if r.outcome == 'unsupported':
            chk.ob(rule, "entry point %s is within the reviewed surface: %s" % (key, r.exc), False, r.exc.where if r.exc else '', key + '-unrecognised')
            continue
        if r.outcome == 'panic' or not r.m.sinks:
            continue
        n += 1
        s = r.m.sinks[0]
        want_q = ['qx', 'qy'][:r.lead] if r.name in ('interp_scalar', 'interp', 'interp_into') else ['xs[e]', 'ys[e]'][:r.lead]
        chk.ob(rule, "%s: the strategy receives the unmodified query value(s) %s of one element (got %s)" % (key, want_q, s['queries']),
               s['queries'] == want_q, s['where'], key + '-query')
        if r.name in ('interp_array', 'interp_array_into'):
            lead_ = s['target'].d.get('lead')
            chk.ob(rule, "%s: the result of that element goes to the sub-view with the same index (%s)" % (key, lead_),
                   lead_ == ('axis0[e]' if r.scn['fast'] else 'qidx'), s['where'], key + '-pairing')
    return n
