"""C15 - results are independent of the units of the axis and linear in the data."""
import re
from .common import *
from ..kernels import *
from ..poly import Rat, Poly, split_atom
from . import spline as S
from .c11 import LookupModel, GLI, NeedDecision
from ..absint import *
from ..kmodel import KModel, interp1d_obj, interp2d_obj

LEVEL = 'other'
A = Rat.atom


def weight_of(atom, wmap):
    for pat, w in wmap:
        if isinstance(pat, str):
            if atom == pat:
                return w
        elif pat.match(atom):
            return w
    return None


def homogeneous(r, wmap):
    """(ok, weight, reason): every monomial of numerator (and of denominator) carries the same (L, V) unit weight"""
    r = r if isinstance(r, Rat) else Rat(r)

    def poly_w(p):
        ws = set()
        for m in p.t:
            L = V = 0
            for a, e in m:
                w = weight_of(a, wmap)
                if w is None:
                    return None, "atom `%s` has no unit assignment" % a
                L += w[0] * e
                V += w[1] * e
            ws.add((L, V))
        if len(ws) > 1:
            return None, "monomials of different units %s" % sorted(ws)
        return (ws.pop() if ws else (0, 0)), None
    if r.n.is_zero():
        return True, None, None
    wn, why = poly_w(r.n)
    if wn is None:
        return False, None, "numerator: " + why
    wd, why = poly_w(r.d)
    if wd is None:
        return False, None, "denominator: " + why
    if wd[1] != 0:
        return False, None, "denominator depends on data (unit V^%d)" % wd[1]
    return True, (wn[0] - wd[0], wn[1] - wd[1]), None


def shift_invariant(r, axis_pats, queries, extra=None):
    """x -> x + s for all axis atoms of one axis and the matching queries leaves r unchanged"""
    s = A('shift')
    sub = {}
    for a in r.atoms():
        if any(p.match(a) for p in axis_pats) or a in queries:
            sub[a] = A(a) + s
    if extra:
        sub.update(extra)
    return r.subs(sub) == r


RX = re.compile(r'^x\[.*\]$')
RY = re.compile(r'^y\[.*\]$')
RZ = re.compile(r'^z\[.*\]$')
RA = re.compile(r'^[ab]\[.*\]$')
RK = re.compile(r'^(k\[.*\]|k0|k1|k2|k_m|k_0|k_p|K1\[.*\])$')
RK2 = re.compile(r'^K2\[.*\]$')


def run(chk):
    lib = load(chk)
    chk.technique = ("units / affine / linearity typing of the extracted numeric core: every extracted expression must be unit-homogeneous (exponent vector over axis length L "
                     "and data unit V), invariant under a common shift of axis and query, and homogeneous of degree 1 in the data with data-free denominators")
    chk.rule('R15.1', "unit homogeneity: with axis values and queries of unit L, data / a / b of unit V, slopes and FirstDeriv values V/L, SecondDeriv values V/L^2, every expression of the "
                      "numeric core has one well-defined unit, and results have unit V (lookup guess: dimensionless; each system row: V * L^m)")
    chk.rule('R15.2', "shift invariance: replacing every axis value x[j] and the query by x[j]+s, q+s leaves every expression unchanged (only differences of axis values enter)")
    chk.rule('R15.3', "linearity: every result / row is homogeneous of degree exactly 1 in the data-like quantities (data, slopes, boundary values) and no denominator contains them")
    chk.assumptions += [
        "theorem used: a straight-line program over + - * / that is well-typed in this system commutes with scaling of L (c > 0), scaling of V, a common shift, and addition of data sets - over the reals; "
        "with power-of-two factors every intermediate scales exactly, hence bit-for-bit barring under/overflow",
        "bit-identity under shifts and rounding-level agreement for non-dyadic factors are NOT decided",
        "rem_euclid(c a, c b) = c rem_euclid(a, b) for c > 0; comparisons compare quantities of equal unit, so lookups depend on order only (C11)"]
    n = 0

    def judge(label, r, wmap, want, where, axis_pats=(RX,), queries=('q',), shift=True, linear=True):
        nonlocal n
        n += 1
        ok, w, why = homogeneous(r, wmap)
        good = ok and (w is None or want is None or (w == want if not callable(want) else want(w)))
        chk.ob('R15.1', "%s is unit-homogeneous with unit %s%s" % (label, _unit(w), '' if ok else ' - ' + str(why)), good, where, 'units-' + label, str(r)[:300])
        if shift:
            chk.ob('R15.2', "%s is invariant under a common shift of the axis values and the query" % label, shift_invariant(r, axis_pats, queries), where, 'shift-' + label)
        if linear and ok and w is not None:
            chk.ob('R15.3', "%s is homogeneous of degree 1 in the data-like quantities" % label, w[1] == 1, where, 'linear-' + label)

    # ---- Linear / calc_frac / lookup guess
    W1 = [(RX, (1, 0)), ('q', (1, 0)), (RY, (0, 1))]
    for ext, rel in ((True, 'inside'), (True, 'below')):
        o = run_linear(lib, ext, rel)
        if chk.ob('R15.1', "Linear kernel (ext=%s) extracted" % ext, o.kind == 'ok' and len(o.m.writes) == 1, '', 'linear-kernel-%s' % ext):
            judge('Linear lane value (ext=%s, q %s)' % (ext, rel), o.m.writes[0][1], W1, (0, 1), lib.body(LIN)['span'])
    # ---- Bilinear: independent units for x and y
    for ext, rx, ry in ((True, 'inside', 'inside'), (True, 'below', 'above')):
        o = run_bilinear(lib, ext, rx, ry)
        if chk.ob('R15.1', "Bilinear kernel (ext=%s) extracted" % ext, o.kind == 'ok' and len(o.m.writes) == 1, '', 'bilinear-kernel-%s' % ext):
            r = o.m.writes[0][1]
            # two independent length units: check homogeneity twice (x-unit with y dimensionless and vice versa)
            for axis, pats, qs in (('x', (RX,), ('qx',)), ('y', (RY,), ('qy',))):
                wm = [(RX, (1 if axis == 'x' else 0, 0)), (RY, (1 if axis == 'y' else 0, 0)), ('qx', (1 if axis == 'x' else 0, 0)),
                      ('qy', (1 if axis == 'y' else 0, 0)), (RZ, (0, 1))]
                judge('Bilinear lane value (ext=%s) w.r.t. the unit of axis %s' % (ext, axis), r, wm, (0, 1), lib.body(BIL)['span'], axis_pats=pats, queries=qs)
    # ---- lookup guess (index arithmetic): dimensionless and shift invariant
    b = lib.body(GLI)
    if b is not None:
        m = LookupModel([False, False, True, True])
        it = Interp(lib, m)
        guess = {}
        orig_cast = m.cast

        def cast(v, cal, e):
            ga = cal.get('gargs', [])
            if len(ga) == 2 and ga[1] == 'usize' and ga[0] != 'usize':
                guess['mid'] = v.r
            return orig_cast(v, cal, e)
        m.cast = cast
        try:
            it.call_def(b['def'], [Ref(ValPlace(Obj('vec'))), Num(A('q'))])
        except Exception:
            pass
        if chk.ob('R15.1', "the even-spacing guess of the lookup was extracted", 'mid' in guess, b['span'], 'guess-extracted'):
            RAx = re.compile(r'^A\[.*\]$')
            judge('lookup guess (before truncation)', guess['mid'], [(RAx, (1, 0)), ('q', (1, 0)), ('n', (0, 0))], (0, 0), b['span'], axis_pats=(RAx,), linear=False)
        # every comparison of the lookup is an order comparison of the query with an axis value (or index arithmetic): such decisions are invariant under any increasing
        # change of units; a comparison of *computed* axis quantities against a constant (`(A[1]-A[0]) - step < 1e-9`, round 8) is not
        import itertools
        bad_cmp = {}
        nruns = 0
        for dec in itertools.product([False, True], repeat=5):
            m2 = LookupModel(list(dec))
            try:
                Interp(lib, m2).call_def(b['def'], [Ref(ValPlace(Obj('vec'))), Num(A('q'))])
                nruns += 1
            except Unsupported as ex:
                if str(ex).startswith('comparison '):
                    bad_cmp.setdefault(str(getattr(ex, 'where', '')), str(ex))
            except Exception:
                nruns += 1          # ran out of decisions / loop bound: the comparisons met so far were all of the admitted kinds
        chk.rule('R15.6', "the lookup touches axis values and the query only through order comparisons `q <=> A[k]` and index arithmetic (decisions invariant under every increasing "
                          "change of units); no comparison involves an arithmetic combination of axis values or a numeric constant")
        for wh, msg in sorted(bad_cmp.items()):
            chk.ob('R15.6', "lookup comparison at %s is an order comparison of the query with an axis value: %s" % (wh, msg[:300]), False, wh, 'lookup-cmp-' + msg[:80])
        chk.ob('R15.6', "the lookup's decision paths were walked (%d of 32 decision prefixes ended without an inadmissible comparison)" % nruns, nruns + len(bad_cmp) >= 1,
               b['span'], 'lookup-paths-walked')
    # ---- spline evaluation, coefficients
    WS = [(RX, (1, 0)), ('q', (1, 0)), (RY, (0, 1)), (RA, (0, 1)), (RK, (-1, 1)), (RK2, (0, 0)), ('v_l', None), ('v_r', None)]
    o = run_spline(lib, 'Yes', 'inside')
    if chk.ob('R15.1', "spline evaluation kernel extracted", o.kind == 'ok' and len(o.m.writes) == 1, '', 'spline-kernel'):
        judge('spline piece value', o.m.writes[0][1], WS, (0, 1), lib.body(SPL)['span'])
    for rel in ('below', 'above'):
        o = run_spline(lib, 'Periodic', rel)
        if o.kind == 'ok' and len(o.m.uninterp) == 1:
            nm, (fn, a_, b_) = list(o.m.uninterp.items())[0]
            judge('periodic wrap dividend (%s)' % rel, a_, WS, (1, 0), lib.body(SPL)['span'], linear=False)
            judge('periodic wrap period (%s)' % rel, b_, WS, (1, 0), lib.body(SPL)['span'], linear=False)
            wq = o.m.lookups[0][1] - A(nm)
            chk.ob('R15.2', "the wrapped query is rem_euclid(.., ..) + x[0]: shifts with the axis", wq == S.X(0), lib.body(SPL)['span'], 'wrap-shift-' + rel)
        else:
            chk.ob('R15.1', "periodic wrap extracted (%s)" % rel, False, '', 'wrap-' + rel)
    ab = S.extract_ab(chk, lib, 'R15.1')
    if ab is not None:
        for nm, r in zip('ab', ab):
            judge('coefficient %s[j]' % nm, r, WS, (0, 1), lib.body(S.CALC)['span'])
    # ---- every row of every scenario
    def rows_of(sysm, nn, lk, rk):
        k0, k1 = A('k0'), A('k1')
        yield 'left row', sysm.at('mid', 0) * k0 + sysm.at('up', 0) * k1 - sysm.at('rhs', 0)
        yield 'right row', sysm.at('mid', nn - 1) * k0 + sysm.at('low', nn - 1) * k1 - sysm.at('rhs', nn - 1)
        L, _, _ = sysm.generic('low')
        M, _, _ = sysm.generic('mid')
        U, _, _ = sysm.generic('up')
        R, _, _ = sysm.generic('rhs')
        if None not in (L, M, U, R):
            yield 'interior row', L * A('k_m') + M * A('k_0') + U * A('k_p') - R
    nsys = 0
    for nv in (None, 3):
        nn = S.N if nv is None else Rat.const(3)
        for lk in S.KINDS:
            for rk in S.KINDS:
                m, out, ex = S.run_solve(lib, S.mixed(lk, rk), nv)
                if ex is not None or len(m.thomas_calls) != 1:
                    chk.ob('R15.1', "system Mixed{%s,%s} n=%s extracted: %s" % (lk, rk, nv, ex), False, ex.where if ex else '', 'system-%s-%s-%s' % (lk, rk, nv))
                    continue
                nsys += 1
                sysm = S.System(m.thomas_calls[0])
                wm = list(WS)
                wm = [(p, w) for p, w in wm if p not in ('v_l', 'v_r')]
                wm += [('v_l', (-1, 1) if lk == 'FirstDeriv' else (-2, 1)), ('v_r', (-1, 1) if rk == 'FirstDeriv' else (-2, 1))]
                for nm, F in rows_of(sysm, nn, lk, rk):
                    if nm == 'interior row' and not (lk == rk == 'Natural'):
                        continue
                    if nv == 3 and lk == rk == 'NotAKnot' and nm != 'interior row':
                        pass
                    judge('%s of Mixed{%s,%s}, n %s' % (nm, lk, rk, nv or 'symbolic'), F, wm, lambda w: w[1] == 1, lib.body(S.SFK)['span'], queries=())
                if nv == 3 and lk == rk == 'NotAKnot':
                    F1 = sysm.at('low', 1) * A('k0') + sysm.at('mid', 1) * A('k1') + sysm.at('up', 1) * A('k2') - sysm.at('rhs', 1)
                    judge('middle row of the 3-point NotAKnot arm', F1, wm, lambda w: w[1] == 1, lib.body(S.SFK)['span'], queries=())
    chk.floor('R15.1', 'systems typed', nsys, 50)
    # ---- periodic arms
    per = S.internal('Periodic')
    wmP = [(p, w) for p, w in WS if p not in ('v_l', 'v_r')]
    m, out, ex = S.run_solve(lib, per, 3, ends_equal=True)
    if chk.ob('R15.1', "3-point periodic arm extracted", ex is None and m.k.d['t'].generic, '', 'periodic3'):
        judge('3-point periodic slope', m.k.d['t'].generic[0]['value'], wmP, (-1, 1), lib.body(S.SFK)['span'], queries=())
    m, out, ex = S.run_solve(lib, per, None, ends_equal=True)
    if chk.ob('R15.1', "general periodic arm extracted", ex is None and len(m.thomas_calls) == 2, '', 'periodic'):
        s1, s2 = S.System(m.thomas_calls[0]), S.System(m.thomas_calls[1])
        judge('periodic row 0', s1.at('mid', 0) * A('k0') + s1.at('up', 0) * A('k1') - s2.at('rhs', 0) * A('k2') - s1.at('rhs', 0), wmP, lambda w: w[1] == 1,
              lib.body(S.SFK)['span'], queries=())
        judge('periodic second right-hand side, last entry (a matrix coefficient)', s2.at('rhs', S.N - 3), wmP, (1, 0), lib.body(S.SFK)['span'], queries=(), linear=False)
        kap = m.k.d['t'].store.get(idx_name(S.N - 2))
        if kap is not None:
            judge('periodic k[n-2]', kap[1], wmP, (-1, 1), lib.body(S.SFK)['span'], queries=())
    # ---- R15.4 comparisons: both sides carry the same unit and the difference is shift invariant (no absolute tolerances)
    chk.rule('R15.4', "every comparison made by the range predicates and the strategies' guards compares two quantities of the same unit whose difference is invariant under a "
                      "common shift (so the decision depends on the order only; an absolute tolerance such as `x <= last + 1e-10` carries a hidden unit)")

    class Rec(KModel):
        def __init__(self, scn):
            super().__init__(scn)
            self.pairs = []

        def compare(self, op, a, b, e):
            if isinstance(a, Num) and isinstance(b, Num) and (a.r.atoms() or b.r.atoms()):
                self.pairs.append((a.r, b.r, line_of(e) if e is not None else ''))
            try:
                return super().compare(op, a, b, e)
            except Unsupported:
                return True
    ncmp = 0
    preds = [('Interp1D::is_in_range', 'x', lambda: interp1d_obj(Unit()), ['q']),
             ('Interp2D::is_in_x_range', 'x', lambda: interp2d_obj(Unit()), ['q']),
             ('Interp2D::is_in_y_range', 'y', lambda: interp2d_obj(Unit()), ['q'])]
    WQ = [(RX, (1, 0)), (RY, (1, 0)), ('q', (1, 0)), ('qx', (1, 0)), ('qy', (1, 0)), (re.compile(r'^n_[xy]$'), (0, 0))]
    for path, axis, mk, qs in preds:
        bb = lib.body(path)
        if bb is None:
            continue
        for rel in ('inside', 'above'):
            m = Rec({'queries': {'q': axis}, 'rel_' + axis: rel})
            try:
                Interp(lib, m).call_def(bb['def'], [Ref(ValPlace(mk())), Num(A('q'))])
            except (Unsupported, Diverge):
                pass
            for a_, b_, where in m.pairs:
                ncmp += 1
                oka, wa, _ = homogeneous(a_, WQ)
                okb, wb, _ = homogeneous(b_, WQ)
                pats = (RX,) if axis == 'x' else (RY,)
                inv = shift_invariant(a_ - b_, pats, ('q',))
                chk.ob('R15.4', "%s compares `%s` with `%s`: same unit on both sides and a shift-invariant difference" % (path.split('::')[-1], a_, b_),
                       oka and okb and (wa == wb or wa is None or wb is None) and inv, where, 'cmp-%s-%s-%s' % (path.split('::')[-1], a_, b_))
    for nm, runner in (('Linear', lambda: run_linear(lib, False, 'inside')), ('CubicSpline', lambda: run_spline(lib, 'No', 'inside')),
                       ('CubicSpline periodic', lambda: run_spline(lib, 'Periodic', 'above'))):
        pass
    # ---- R15.5 the solver between the typed rows and the typed coefficients
    chk.rule('R15.5', "the tridiagonal solver that turns the typed rows into the slopes is the comparison-free Thomas elimination: each step is `row j - (low[j]/mid'[j-1]) * row j-1` "
                      "and `k[j] = (rhs'[j] - up[j] k[j+1]) / mid'[j]` - rational, homogeneous of degree 0 in the matrix and 1 in the right-hand side, with no constant and no "
                      "comparison (a pivot clamped to an absolute 1e-9 carries a hidden unit: round 8)")
    S.check_thomas(chk, lib, 'R15.5')
    chk.floor('R15.4', 'comparisons typed', ncmp, 8)
    chk.note('expressions_typed', n)
    chk.floor('R15.1', 'expressions typed', n, 120)
    chk.sample({"units": "x, q: L ; y, a, b: V ; k, FirstDeriv v: V/L ; SecondDeriv v: V/L^2 ; K2 (second periodic solution): 1"})
    chk.explanation = ("%d extracted expressions of the numeric core (all kernels, coefficients, every row of %d systems, periodic condensation, wrap, lookup guess) were typed: "
                       "each is homogeneous in the units (L, V), invariant under a common shift of axis and query, and of degree exactly 1 in the data-like quantities with data-free "
                       "denominators. Over the reals this implies the commutation with unit changes and superposition stated by C15; a coefficient with h instead of h^2 or a missing 1/h "
                       "mixes units and is reported even though it is invisible on unit-spaced test data." % (n, nsys))


def _unit(w):
    if w is None:
        return '(zero)'
    return "L^%d V^%d" % w
