"""C13 - results do not depend on memory layout or ownership of array arguments."""
from .common import *
from ..tables import *
from .c17 import all_mir_calls, _only_cast_inside

LEVEL = 'other'


def _mentions(e, var):
    from ..thir import walk
    return any(n.get('k') in ('Var', 'Upvar') and n.get('var') == var for n in walk(e))


def _assigned_before_read(body, var):
    """the first thing every invocation does with the captured slot is an unconditional assignment (a top-level statement of the closure
    body whose right-hand side does not mention the slot): whatever is read later in the same invocation was written by it"""
    root = body.get('root')
    while isinstance(root, dict) and root.get('k') in ('Scope',):
        root = root.get('e')
    if not isinstance(root, dict) or root.get('k') != 'Block':
        return False
    items = [st.get('e') if st.get('k') == 'Expr' else st for st in root.get('stmts', [])] + ([root['expr']] if root.get('expr') is not None else [])
    for it_ in items:
        if not _mentions(it_, var):
            continue
        x = peel(it_) if isinstance(it_, dict) and 'ty' in it_ else it_
        if isinstance(x, dict) and x.get('k') == 'Assign':
            l = x['l']
            while l.get('k') == 'Deref':
                l = l['e']
            return l.get('k') in ('Var', 'Upvar') and l.get('var') == var and not _mentions(x['r'], var)
        return False
    return False


def _write_only(lib, closure_def, var):
    body = lib.bodies.get(closure_def) if closure_def else None
    if body is None or not var:
        return False
    if _assigned_before_read(body, var):
        return True
    uses = 0
    for b in lib.with_closures(body):
        for n, anc in walk_anc(b.get('root')):
            if n.get('k') in ('Var', 'Upvar') and n.get('var') == var:
                uses += 1
                if not anc:
                    return False
                # allowed position: the left-hand side of a plain assignment, possibly through the capture's own dereference
                chain = list(anc)
                while chain and chain[-1][0].get('k') in ('Deref',):
                    chain.pop()
                if not chain or chain[-1][0].get('k') != 'Assign' or chain[-1][1] != 'l':
                    return False
    return uses > 0


def run(chk):
    lib = load(chk)
    f = lib.f
    chk.technique = "type-resolved who-may-call table (layout-sensitive ndarray API) over all MIR and THIR callees + unsafe confinement + signature genericity"
    chk.rule('R13.1', "no body of the library calls a layout-sensitive ndarray API (table LAYOUT_SENSITIVE: raw pointers, "
                      "slices in memory order, reshapes that require contiguity, stride queries, order-dependent reductions)")
    chk.rule('R13.2', "hand-written unsafe exists only in the identity cast and its guarded call sites (all other memory "
                      "access goes through ndarray's stride-aware safe API)")
    chk.rule('R13.3', "every public entry point is generic over the storage (`ArrayBase<S: Data, _>` / `ArrayViewMut`), so "
                      "owned arrays, views and shared arrays run the same code")
    chk.assumptions += ["ndarray's safe API other than the table entries is stride-aware: its results are a function of "
                        "the logical contents (shape + element at each index) only"]
    n = 0
    hits = 0
    for d, m, bi, t in all_mir_calls(lib):
        cal = t['callee']
        if 'indirect' in cal:
            continue
        for which, crk in (('path', 'crate'), ('resolved', 'resolved_crate')):
            p = cal.get(which)
            if not p or cal.get(crk) != 'ndarray':
                continue
            n += 1
            name = strip_generics(p).split('::')[-1]
            if name in LAYOUT_SENSITIVE:
                hits += 1
                fn = strip_generics(d)
                chk.ob('R13.1', "%s calls ndarray `%s`: %s" % (fn, name, LAYOUT_SENSITIVE[name]), False, t['sp'],
                       '%s-%s' % (fn.split('::{closure')[0], name))
    # THIR cross-check (same table, other representation)
    n2 = 0
    for d, b in lib.bodies.items():
        for x in calls(b.get('root')):
            if x['callee'].get('crate') == 'ndarray':
                n2 += 1
                name = strip_generics(x['callee']['path']).split('::')[-1]
                if name in LAYOUT_SENSITIVE:
                    fn = strip_generics(d)
                    chk.ob('R13.1', "%s calls ndarray `%s`: %s" % (fn, name, LAYOUT_SENSITIVE[name]), False, line_of(x),
                           '%s-%s' % (fn.split('::{closure')[0], name))
    chk.ob('R13.1', "scanned %d MIR and %d THIR call sites into ndarray against %d table entries: %d hits" %
           (n, n2, len(LAYOUT_SENSITIVE), hits), n >= 250 and n2 >= 250, key='scan-floor')
    chk.note('ndarray_call_sites_mir', n)
    chk.note('ndarray_call_sites_thir', n2)
    # R13.4 closures handed to ndarray (whose traversal order follows the memory layout) must not carry state between elements
    chk.rule('R13.4', "no closure passed to an ndarray traversal (mapv, map, map_inplace, for_each, fold*, Zip::*) captures a variable by mutable borrow: "
                      "ndarray visits elements in memory order, so state carried from one element to the next makes the result layout dependent")
    n_clo = 0
    for d, b in lib.bodies.items():
        for x in calls(b.get('root')):
            cal = x['callee']
            if cal.get('crate') != 'ndarray' and 'ndarray::' not in (cal.get('resolved') or ''):
                continue
            for a in x['args']:
                a = peel(a)
                if a.get('k') != 'Closure':
                    continue
                n_clo += 1
                muts = [peel(u).get('var') or peel(u).get('k') for u in a.get('upvars', []) if u.get('k') == 'Borrow' and 'Mut' in u.get('bk', '')]
                # a captured slot that the closure only ever assigns to (never reads) carries nothing from one element to the next
                muts = [v for v in muts if not _write_only(lib, a.get('def'), v)]
                name = strip_generics(cal.get('resolved') or cal['path']).split('::')[-1]
                fn = strip_generics(d)
                chk.ob('R13.4', "%s: the closure passed to ndarray `%s` carries no mutable state between elements (mutably captured: %s)" % (fn, name, muts),
                       not muts, line_of(x), 'stateful-closure-%s-%s' % (fn.split('::{closure')[0], name))
    chk.floor('R13.4', 'closures passed to ndarray traversals', n_clo, 15)
    # R13.2
    n_exp = 0
    for u in f['unsafe_blocks']:
        if u['mode'] != 'ExplicitUnsafe':
            continue
        n_exp += 1
        where = strip_generics(u['in'])
        if u['from_expansion']:
            ok = bool(u['expn']) and 'ndarray::s' in u['expn']
            chk.ob('R13.2', "macro-generated unsafe block in %s comes from ndarray::s" % where, ok, u['sp'],
                   'unsafe-macro-%s' % where)
        else:
            ok = lib.is_role(where, 'cast_unchecked') or _only_cast_inside(lib, u)
            chk.ob('R13.2', "hand-written unsafe block in %s is the identity cast" % where, ok, u['sp'], 'unsafe-' + where)
    chk.floor('R13.2', 'explicit unsafe blocks classified', n_exp, 1)
    # R13.3 signatures
    n_sig = 0
    for d, b in lib.bodies.items():
        nd = strip_generics(d)
        if b.get('kind') != 'AssocFn' or b.get('vis') != 'Public':
            continue
        if not any(nd.startswith(p) for p in ('Interp1D::', 'Interp2D::',
                                              'Interp1DBuilder::', 'Interp2DBuilder::')):
            continue
        for p in b['params']:
            ty = p['ty']
            if 'ndarray::ArrayBase<' not in ty:
                continue
            n_sig += 1
            # storage argument must be a type parameter or a view; never a concrete OwnedRepr
            ok = 'OwnedRepr' not in ty.split('ArrayBase<')[1].split(',')[0]
            chk.ob('R13.3', "%s: array parameter `%s` is storage-generic or a view" % (nd, ty), ok, b['span'],
                   'sig-%s-%s' % (nd, ty))
    chk.floor('R13.3', 'array parameters of public entry points', n_sig, 20)
    chk.sample({"table_entries": sorted(LAYOUT_SENSITIVE)[:12], "example_allowed_callees": ["index_axis", "axis_iter_mut", "Zip::and", "index_axis_move"]})
    chk.explanation = (
        "Decides the structural necessary condition of C13: no resolved callee anywhere in the library (%d MIR / %d THIR "
        "call sites into ndarray) is a layout-sensitive API, unsafe is confined to the identity cast, and all entry "
        "points are storage-generic. Given ndarray's contract that the remaining API is stride-aware, results are a "
        "function of logical contents; in particular the buffer sub-view of the general path is selected with "
        "index_axis_move (stride-aware) since fix a8450c9. Bit-identity itself is not executed or measured." % (n, n2))
