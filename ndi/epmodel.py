"""Model of the ndarray surface used by the *entry points* (interp_scalar, interp,
interp_into, interp_array, interp_array_into, their private helpers) with a
user-defined (opaque) strategy.  Shapes are symbolic sequences:

    data shape   = [d0, (d1,) T*]          T* = the trailing (lane) axes
    query shape  = [Q*]   (general path)  or [q0] (rank-1 static fast path)
    buffer shape = [B*]   unknown, supplied by the caller

A scenario fixes: which path the TypeId guard takes, whether the buffer shape
equals the required shape, and what the strategy sink returns.  Every call is
answered by table; nothing is executed.
"""
from .absint import *
from .kmodel import KModel, AX0_ENUM
from .poly import Rat, Poly


class Dim(V):
    """symbolic shape: list of items ('s', name) | ('seq', name)"""
    def __init__(self, items):
        self.items = list(items)

    def __repr__(self):
        return "[" + ", ".join(n + ('*' if k == 'seq' else '') for k, n in self.items) + "]"

    def key(self):
        return tuple(self.items)

    def ndim(self):
        r = Rat.const(0)
        for k, n in self.items:
            r = r + (Rat.atom('len(%s)' % n) if k == 'seq' else Rat.const(1))
        return r

    def drop_first(self, e=None):
        if self.items and self.items[0][0] == 's':
            return Dim(self.items[1:])
        raise Unsupported("removing the first axis of a shape whose first axis is not known: %r" % (self,), e)


def is_axis0(v):
    v = deref_all(v)
    return isinstance(v, Enum) and v.adt == 'ndarray::Axis' and isinstance(v.fields.get('0'), Num) and v.fields['0'].const() == 0


class _PlaceItems:
    """the one element of `slice::from_mut(&mut local)`, seen as a list"""
    def __init__(self, place):
        self.place = place

    def __len__(self):
        return 1

    def __getitem__(self, i):
        return self.place.get()

    def __setitem__(self, i, v):
        self.place.set(v)


class EPModel(KModel):
    def __init__(self, scn):
        super().__init__(scn)
        self.sinks = []            # recorded strategy calls
        self.shape_questions = []  # (lhs, rhs, answer)
        self.zips = []             # operands zipped together (length checks by ndarray contract)
        self.loop_elems = 0
        self.qassert = []          # xs.shape()==ys.shape() questions
        self.views = 0
        self.events = []

    # ------------------------------------------------------------ objects
    def make_interp(self, lead, strategy, data_items):
        self.lead = lead
        self.data_dim = Dim(data_items)
        data = Obj('ndarr', name='data', shape=self.data_dim, role='data')
        from . import layout
        fields = {'x': Obj('ndarr', name='x', shape=Dim([('s', 'd0')]), role='axis'), 'data': data, 'strategy': strategy}
        if lead == 2:
            fields['y'] = Obj('ndarr', name='y', shape=Dim([('s', 'd1')]), role='axis')
        adt = 'Interp1D' if lead == 1 else 'Interp2D'
        self.ip = layout.make(adt, **fields)
        self.ip_strategy = strategy
        return self.ip

    def trail(self):
        return Dim(self.data_dim.items[self.lead:])

    # ------------------------------------------------------------ comparisons
    def compare(self, op, a, b, e):
        if isinstance(a, Obj) and a.kind == 'typeid' and isinstance(b, Obj) and b.kind == 'typeid':
            ans = bool(self.scn.get('fast'))
            self.events.append(('typeid-guard', a.d['ty'], b.d['ty'], ans))
            return ans if op == 'eq' else (not ans)
        if isinstance(a, Dim) and isinstance(b, Dim) and a.key() != b.key() and \
                not any(n.startswith('B') or n == 'b0' for _, n in a.items + b.items) and any(n.startswith('Y') for _, n in a.items + b.items):
            # the two query arrays' dimensions compared (raw_dim() == raw_dim() is shape() == shape())
            same = bool(self.scn.get('qshape_ok', True))
            self.qassert.append((repr(a), repr(b), same, len(self.sinks)))
            if same:
                self._refine(a, b)
            return same if op == 'eq' else (not same)
        if isinstance(a, Dim) and isinstance(b, Dim):
            if a.key() == b.key():
                same = True
            else:
                same = bool(self.scn.get('shape_ok', True))
                self.shape_questions.append((repr(a), repr(b), same, len(self.sinks)))
                if same:
                    self._refine(a, b)
            return same if op == 'eq' else (not same)
        if isinstance(a, Obj) and a.kind == 'shape' and isinstance(b, Obj) and b.kind == 'shape':
            da, db = a.d['dim'], b.d['dim']
            about_buffer = any(n.startswith('B') or n == 'b0' for _, n in da.items + db.items)
            if about_buffer:
                same = da.key() == db.key() or bool(self.scn.get('shape_ok', True))
                self.shape_questions.append((repr(da), repr(db), same, len(self.sinks)))
            else:
                same = da.key() == db.key() or bool(self.scn.get('qshape_ok', True))
                self.qassert.append((repr(da), repr(db), same, len(self.sinks)))
            if same and da.key() != db.key():
                self._refine(da, db)
            return same if op == 'eq' else (not same)
        if isinstance(a, Num) and isinstance(b, Num) and a.r == b.r:
            return {'eq': True, 'le': True, 'ge': True, 'ne': False, 'lt': False, 'gt': False}[op]
        if isinstance(a, Num) and isinstance(b, Num) and self.scn.get('axis_class') and {str(a.r), str(b.r)} >= {'nr'}:
            # inside slice_each_axis: the axis number against the number of query axes - query axes come first
            other = b if str(a.r) == 'nr' else a
            if other.r == self.qdim.ndim():
                is_query = self.scn['axis_class'] == 'query'
                o = op if str(a.r) == 'nr' else {'lt': 'gt', 'le': 'ge', 'gt': 'lt', 'ge': 'le', 'eq': 'eq', 'ne': 'ne'}[op]
                if o == 'lt':
                    return is_query
                if o == 'ge':
                    return not is_query
        if isinstance(a, Num) and isinstance(b, Num) and getattr(self, 'loop_counter', None) and str(a.r) == self.loop_counter and b.const() == 0 and op == 'gt':
            return True       # the inductive step of a counting loop runs under its condition
        if isinstance(a, Num) and isinstance(b, Num) and getattr(self, 'loop_counter', None) and str(a.r) == self.loop_counter and op == 'lt' and \
                self.loop_counter not in b.r.atoms():
            self.loop_bound = b.r     # `while c < N`: counts up to N
            return True
        return super().compare(op, a, b, e)

    def _refine(self, a, b):
        """after a successful equality test both shapes are known to be the more specific one"""
        unknown, known = (a, b) if any(n.startswith('B') or n.startswith('Y') or n == 'b0' for _, n in a.items) else (b, a)
        unknown.items = list(known.items)

    # ------------------------------------------------------------ calls
    def call(self, name, cal, args, e, frame):
        last = name.split('::')[-1]
        a0 = deref_all(args[0]) if args else None
        if self.interp.lib.is_role(name, 'cast_unchecked'):
            self.events.append(('cast', ))
            return args[0]
        if name == 'std::any::TypeId::of':
            return Obj('typeid', ty=cal['gargs'][0])
        # ---- the strategy sink (trait method on the opaque strategy)
        if name in ('Interp1DStrategy::interp_into', 'Interp2DStrategy::interp_into'):
            return self.sink(args, e)
        if name in ('Interp1DStrategyBuilder::build', 'Interp2DStrategyBuilder::build'):
            return NotImplemented
        if name == 'std::clone::Clone::clone' and isinstance(a0, Obj):
            return a0
        if name.endswith('as_mut_slice') and isinstance(a0, Tup):
            return Obj('mutslice', of=a0)
        if name.split('::')[-1] == 'arr0' and name.startswith('ndarray::') and len(args) == 1:
            # an owned 0-d array holding the initial value: the scalar buffer
            return Obj('view', root=Tup([deref_all(args[0])]), rootkind='scalarbuf', shape=Dim([]), lead=None, ones=Rat.const(0))
        if last == 'into_scalar' and isinstance(a0, Obj) and a0.kind == 'view' and a0.d['rootkind'] == 'scalarbuf' and a0.d['shape'].key() == ():
            return a0.d['root'].items[0]
        if name == 'std::slice::from_mut' and isinstance(args[0], Ref):
            # a one-element slice over a local: what is written through it lands in that local
            root = Obj('localbuf')
            root.items = _PlaceItems(args[0].place)
            return Obj('mutslice', of=root)
        if name.endswith('>::from') or name == 'std::convert::From::from':
            v = deref_all(args[0])
            if isinstance(v, Obj) and v.kind == 'mutslice':
                return Obj('view', root=v.d['of'], rootkind='scalarbuf', shape=Dim([('s', str(len(v.d['of'].items)))]), lead=None, ones=Rat.const(0))
            if isinstance(v, Enum) and v.adt == 'std::ops::Range':
                return Obj('slice', start=deref_all(v.fields['start']), end=deref_all(v.fields['end']))
            if isinstance(v, Enum) and v.adt == 'std::ops::RangeFull':
                return Obj('slice', start=None, end=None)
            return NotImplemented
        if name == 'builtin::index':
            base, idx = deref_all(args[0]), deref_all(args[1])
            if isinstance(base, Tup) and isinstance(idx, Num) and idx.const() is not None:
                i = int(idx.const())
                return FieldPlace(ValPlace(base), str(i))
            return NotImplemented
        if name in ('std::ops::Index::index', 'core::slice::index::<impl std::ops::Index for [T]>::index', 'builtin::index') or \
                (last == 'index' and name.startswith('ndarray::') and 'Dim' in name):
            if isinstance(a0, Obj) and a0.kind in ('dimseq', 'qidx') and isinstance(deref_all(args[1]), Num) and str(deref_all(args[1]).r) == 'nr':
                src = a0.d['dim'] if a0.kind == 'dimseq' else a0
                if isinstance(src, Obj) and src.kind == 'qidx' and self.scn.get('axis_class') == 'query':
                    return Ref(ValPlace(Num(Rat.atom('e[nr]'))))       # the element's own index on query axis nr
        if name in ('std::ops::Index::index', 'core::slice::index::<impl std::ops::Index for [T]>::index'):
            if isinstance(a0, Obj) and a0.kind == 'shape':
                idx = deref_all(args[1])
                if isinstance(idx, Enum) and idx.adt == 'std::ops::RangeFrom':
                    k = deref_all(idx.fields['start']).const()
                    d = a0.d['dim']
                    for _ in range(int(k)):
                        d = d.drop_first(e)
                    return Ref(ValPlace(Obj('shape', dim=d)))
                if isinstance(idx, Num) and idx.const() is not None:
                    k = int(idx.const())
                    d = a0.d['dim']
                    if k < len(d.items) and all(it[0] == 's' for it in d.items[:k + 1]):
                        return Ref(ValPlace(Num(Rat.atom(d.items[k][1]))))
                    raise Diverge('index %d out of bounds of shape %r' % (k, d), e)
            return NotImplemented
        if name == 'core::slice::<impl [T]>::iter' and isinstance(a0, Obj) and a0.kind == 'shape':
            return Obj('dimseq', dim=a0.d['dim'])
        if name.startswith(('core::slice::<impl [T]>::', 'std::slice::<impl [T]>::', 'alloc::slice::<impl [T]>::')) and isinstance(a0, Obj) and a0.kind == 'dimseq':
            r = self.dimseq_call(last, a0, args, e)
            if r is not NotImplemented:
                return r
        if (last == 'fold' and name.endswith('Iterator>::fold')) or name == 'std::iter::Iterator::fold':
            if isinstance(a0, Obj) and a0.kind == 'dimseq' and isinstance(a0.d['dim'], Obj) and a0.d['dim'].kind == 'qidx':
                # `index.slice().iter().fold(view, |v, &idx| v.index_axis_move(Axis(0), idx))`: one inductive step over the components of the
                # element's own index (as the `for` form below)
                v0 = deref_all(args[1])
                if isinstance(v0, Obj) and v0.kind == 'view':
                    v1 = deref_all(self.interp.apply(args[2], [v0, Ref(ValPlace(Num(Rat.atom('e[k]'))))], e))
                    if isinstance(v1, Obj) and v1.kind == 'view' and v1 is not v0 and v1.d.get('lead') == 'qidx-partial':
                        per = v1.d['qdrop'] - v0.d.get('qdrop', Rat.const(0))
                        total = v0.d.get('qdrop', Rat.const(0)) + per * self.qdim.ndim()
                        if not (per == Rat.const(1) and total == self.qdim.ndim()):
                            raise Unsupported("walking down the query axes does not consume exactly the query axes", e)
                        rest = self.after_query(v1.d['base_shape'], e)
                        self.events.append(('slice_each_axis', True, True, 'by indexing each query axis at the element\'s own position'))
                        return Obj('view', root=v1.d['root'], rootkind=v1.d['rootkind'], shape=rest, lead='qidx', ones=Rat.const(0))
                    raise Unsupported("fold over the components of the query index with a step that yields %r" % (v1,), e)
        if name in ('std::iter::Iterator::try_for_each', 'std::iter::Iterator::for_each') and isinstance(a0, Obj) and \
                a0.kind in ('indexed_iter', 'query_iter', 'query_zip', 'query_map'):
            return self.query_each(a0, args[1], last == 'try_for_each', e)
        if name == 'std::iter::Iterator::fold' and isinstance(a0, Enum) and a0.adt == 'std::ops::Range':
            return self.range_fold(a0, args[1], args[2], e)
        if last in ('extend_from_slice', 'extend') and name.split('::')[-2:-1] == ['Vec'] and isinstance(a0, Obj) and a0.kind == 'dimseq' and isinstance(a0.d['dim'], Dim):
            more = deref_all(args[1])
            more = more.d['dim'] if isinstance(more, Obj) and more.kind in ('shape', 'dimseq') else None
            if isinstance(more, Dim):
                a0.d['dim'] = Dim(a0.d['dim'].items + more.items)
                return Unit()
            raise Unsupported("a vector of lengths extended with something that is not a shape", e)
        if name in ('std::vec::Vec::new', 'std::vec::Vec::with_capacity', 'alloc::vec::Vec::new', 'alloc::vec::Vec::with_capacity') and \
                'Vec<usize' in ((e or {}).get('ty') or ''):
            return Obj('dimseq', dim=Dim([]))                  # a vector of axis lengths being assembled
        if name in ('std::vec::Vec::push', 'alloc::vec::Vec::push') and isinstance(a0, Obj) and a0.kind == 'dimseq' and isinstance(a0.d['dim'], Dim):
            el = deref_all(args[1])
            if isinstance(el, Obj) and el.kind == 'dimelem':
                self._dim_pushes = getattr(self, '_dim_pushes', []) + [(a0, el)]
                return Unit()
            if isinstance(el, Num) and el.const() is None and len(el.r.atoms()) == 1:
                a0.d['dim'] = Dim(a0.d['dim'].items + [('s', str(el.r))])
                return Unit()
            raise Unsupported("push of %r onto a vector of axis lengths" % (el,), e)
        if last == 'index' and name.startswith('ndarray::Axis') and isinstance(a0, Enum) and a0.adt == 'ndarray::Axis':
            return a0.fields['0']
        if name == 'std::iter::Iterator::map' and isinstance(a0, Obj) and a0.kind in ('indexed_iter', 'query_iter', 'query_zip', 'query_map'):
            return Obj('query_map', base=a0, clo=args[1])        # lazy: the closure runs when the element is consumed
        if name == 'std::iter::Iterator::zip' and isinstance(a0, Obj) and a0.kind in ('indexed_iter', 'query_iter'):
            b0 = deref_all(args[1])
            if isinstance(b0, Obj) and b0.kind == 'ndarr' and b0.d['role'] == 'query':
                b0 = Obj('query_iter', of=b0)       # `zip` takes any IntoIterator: &array iterates its elements in logical order
            if isinstance(b0, Obj) and b0.kind in ('indexed_iter', 'query_iter'):
                if a0.d['of'].d['shape'].key() != b0.d['of'].d['shape'].key():
                    raise Unsupported("lock-step iteration over two query arrays that are not known to have the same shape "
                                      "(%r, %r): the pairs would not share one index" % (a0.d['of'].d['shape'], b0.d['of'].d['shape']), e)
                return Obj('query_zip', parts=[a0, b0])
            return NotImplemented
        if name == 'std::iter::Iterator::chain':
            a, b = deref_all(args[0]), deref_all(args[1])
            # `chain` takes any IntoIterator: a slice of the shape is as good as its iterator
            if isinstance(b, Obj) and b.kind == 'shape':
                b = Obj('dimseq', dim=b.d['dim'])
            if isinstance(a, Obj) and a.kind == 'shape':
                a = Obj('dimseq', dim=a.d['dim'])
            if isinstance(a, Obj) and a.kind == 'dimseq' and isinstance(b, Obj) and b.kind == 'dimseq':
                return Obj('dimseq', dim=Dim(a.d['dim'].items + b.d['dim'].items))
            return NotImplemented
        if name == 'std::iter::Iterator::copied' and isinstance(a0, Obj) and a0.kind == 'dimseq':
            return a0
        if self.interp.lib.is_role(name, 'DimExtension::new') and isinstance(a0, Obj) and a0.kind == 'dimseq':
            return Dim(a0.d['dim'].items)
        if name == 'std::iter::IntoIterator::into_iter' or name.endswith('as std::iter::IntoIterator>::into_iter'):
            return a0
        # ---- ndarray
        nd = (cal.get('crate') == 'ndarray') or ('ndarray::' in (cal.get('resolved') or ''))
        if not nd:
            return super().call(name, cal, args, e, frame)
        if last == 'from' and name.startswith('ndarray::Zip'):
            return Obj('zip', parts=[a0])
        if last == 'and' and isinstance(a0, Obj) and a0.kind == 'zip':
            return Obj('zip', parts=a0.d['parts'] + [deref_all(args[1])])
        if last == 'fold_while' and isinstance(a0, Obj) and a0.kind == 'zip':
            return self.fold_while(a0, args[1], args[2], e)
        if last == 'fold' and isinstance(a0, Obj) and a0.kind == 'zip':
            return self.zip_fold(a0, args[1], args[2], e)
        if last in ('all', 'any') and isinstance(a0, Obj) and a0.kind == 'zip':
            return self.zip_all(a0, args[1], last == 'all', e)
        if last == 'into_inner' and isinstance(a0, Enum) and a0.adt == 'ndarray::FoldWhile':
            return a0.fields['0']
        if isinstance(a0, Dim):
            if last == 'remove_axis':
                if not is_axis0(args[1]):
                    raise Unsupported("remove_axis of an axis other than Axis(0)", e)
                return a0.drop_first(e)
            if last in ('as_array_view', 'slice'):
                return Obj('dimseq', dim=a0)
            if last == 'ndim':
                return Num(a0.ndim())
            if last == 'into_pattern':
                return a0
            if last == 'clone':
                return a0
        if isinstance(a0, Obj) and a0.kind == 'dimseq':
            r = self.dimseq_call(last, a0, args, e)
            if r is not NotImplemented:
                return r
        if isinstance(a0, Obj) and a0.kind == 'qidx':
            if last == 'ndim':
                return Num(self.qdim.ndim())
            if last in ('into_dimension', 'clone'):
                return a0
            if last in ('as_array_view', 'slice'):
                return Obj('dimseq', dim=a0)
        if isinstance(a0, Obj) and a0.kind == 'ndarr':
            return self.ndarr_call(last, a0, args, e)
        if isinstance(a0, Obj) and a0.kind == 'view':
            return self.view_call(last, a0, args, e)
        if last in ('zeros', 'from_elem', 'ones', 'default') and isinstance(a0, Dim):
            # a freshly allocated owned array of that shape (its initial content is irrelevant to the rules built on this model:
            # what the strategies write is R9.8 / R14.3 / R17.8)
            return Obj('ndarr', name='alloc%d' % len(self.events), shape=a0, role='alloc')
        return NotImplemented

    def dimseq_call(self, last, a0, args, e):
        """the index / shape seen as a sequence of usize (`as_array_view()`, `slice()`)"""
        src = a0.d['dim']
        if last in ('iter', 'into_iter'):
            return a0
        if last in ('to_vec', 'to_owned') and isinstance(src, Dim):
            return Obj('dimseq', dim=Dim(list(src.items)))
        if last in ('len', 'ndim'):
            return Num(self.qdim.ndim()) if isinstance(src, Obj) and src.kind == 'qidx' else Num(src.ndim())
        if last == 'get':
            # current_dim.as_array_view().get(nr): Some(idx) on a query axis, None on a trailing axis
            if isinstance(src, Obj) and src.kind == 'qidx':
                cls = self.scn.get('axis_class')
                if cls == 'query':
                    return SOME(Ref(ValPlace(Num(Rat.atom('e[nr]')))))
                if cls == 'trailing':
                    return NONE
            raise Unsupported("get() on a dimension sequence outside slice_each_axis_mut", e)
        return NotImplemented

    # ------------------------------------------------------------ arrays
    def ndarr_call(self, last, a, args, e):
        if last == 'raw_dim' or last == 'dim':
            return a.d['shape']
        if last == 'shape':
            return Ref(ValPlace(Obj('shape', dim=a.d['shape'])))
        if last == 'ndim':
            return Num(a.d['shape'].ndim())
        if last == 'view_mut':
            self.views += 1
            return Obj('view', root=a, rootkind=a.d['role'], shape=a.d['shape'], lead=None, ones=Rat.const(0))
        if last == 'indexed_iter' and a.d['role'] == 'query':
            return Obj('indexed_iter', of=a)
        if last == 'iter' and a.d['role'] == 'query':
            return Obj('query_iter', of=a)
        if last == 'get' and a.d['role'] == 'query':
            idx = deref_all(args[1])
            if isinstance(idx, Obj) and idx.kind == 'qidx':
                return SOME(Ref(ValPlace(Num(Rat.atom('%s[e]' % a.d['name'])))))
            raise Unsupported("query array indexed with something that is not the loop index", e)
        raise Unsupported("ndarray call `%s` on %r is not part of the reviewed entry-point surface" % (last, a), e)

    def view_call(self, last, v, args, e):
        d = v.d
        if last in ('raw_dim', 'dim'):
            return d['shape']
        if last == 'shape':
            return Ref(ValPlace(Obj('shape', dim=d['shape'])))
        if last == 'ndim':
            return Num(d['shape'].ndim())
        if last in ('view_mut', 'reborrow'):
            return Obj('view', **dict(d))       # a fresh handle: in-place slicing of the reborrow must not change the original
        if last == 'into_dyn':
            return v
        if last == 'remove_axis':
            # removing the only axis (length 1) of the 1-element scalar buffer view
            if d['rootkind'] == 'scalarbuf' and is_axis0(args[1]) and d['shape'].key() == (('s', '1'),):
                return Obj('view', root=d['root'], rootkind='scalarbuf', shape=Dim([]), lead=None, ones=Rat.const(0))
            raise Unsupported("remove_axis on a caller-visible view", e)
        if last == 'axis_iter_mut':
            if not is_axis0(args[1]):
                raise Unsupported("axis_iter_mut over an axis other than Axis(0)", e)
            return Obj('axis_iter_mut', of=v)
        if last == 'outer_iter_mut':
            return Obj('axis_iter_mut', of=v)       # outer_iter_mut() is axis_iter_mut(Axis(0))
        if last in ('slice_each_axis_mut', 'slice_each_axis'):
            return self.slice_each_axis(v, args[1], e)
        if last == 'slice_axis_inplace' and self.scn.get('axis_class'):
            ax = deref_all(args[1])
            sl = deref_all(args[2])
            if not (isinstance(ax, Enum) and ax.adt == 'ndarray::Axis' and isinstance(deref_all(ax.fields['0']), Num) and str(deref_all(ax.fields['0']).r) == 'nr'
                    and isinstance(sl, Obj) and sl.kind == 'slice'):
                raise Unsupported("slice_axis_inplace on something other than the axis the loop is at", e)
            self._axis_slices = getattr(self, '_axis_slices', {})
            self._axis_slices[self.scn['axis_class']] = (v, sl)
            return Unit()
        if last == 'slice_each_axis_inplace':
            nv = self.slice_each_axis(v, args[1], e)
            v.d.clear()
            v.d.update(nv.d)
            return Unit()
        if last == 'index_axis_move' and isinstance(deref_all(args[2]), Num) and str(deref_all(args[2]).r) == 'e[k]':
            # selecting the element's own position on the (currently) leading query axis: one step of walking down the query axes
            if not (is_axis0(args[1]) and d.get('lead') in (None, 'qidx-partial') and d['rootkind'] in ('caller', 'alloc')):
                raise Unsupported("index_axis_move at a component of the query index on something other than the leading axis of the buffer", e)
            return Obj('view', root=d['root'], rootkind=d['rootkind'], shape=d['shape'], lead='qidx-partial', ones=Rat.const(0),
                       base_shape=d.get('base_shape') or d['shape'], qdrop=d.get('qdrop', Rat.const(0)) + 1)
        if last == 'index_axis_move' and d['rootkind'] == 'scalarbuf' and is_axis0(args[1]) and d['shape'].key() == (('s', '1'),) and \
                isinstance(deref_all(args[2]), Num) and deref_all(args[2]).const() == 0:
            # the only element of the 1-element scalar buffer as a 0-d view (same as remove_axis(Axis(0)) on a length-1 axis)
            return Obj('view', root=d['root'], rootkind='scalarbuf', shape=Dim([]), lead=None, ones=Rat.const(0))
        if last == 'index_axis_move':
            i = deref_all(args[2])
            if not (is_axis0(args[1]) and isinstance(i, Num) and i.const() == 0 and d.get('lead') == 'qidx-unit'):
                raise Unsupported("index_axis_move that does not drop a leading unit (query) axis at index 0", e)
            return Obj('view', root=d['root'], rootkind=d['rootkind'], shape=d['shape'], lead='qidx-unit', ones=d['ones'] - 1,
                       base_shape=d.get('base_shape'))
        if last == 'into_dimensionality':
            if d.get('lead') == 'qidx-unit':
                if d['ones'].is_zero():
                    base = d['base_shape']
                    # all query axes dropped: what remains are the axes after the query axes
                    rest = self.after_query(base, e)
                    return OK(Obj('view', root=d['root'], rootkind=d['rootkind'], shape=rest, lead='qidx', ones=Rat.const(0)))
                return ERR(Obj('shape_error'))
            return OK(v)
        raise Unsupported("ndarray call `%s` on a view is not part of the reviewed entry-point surface" % last, e)

    def after_query(self, base, e):
        items = base.items
        q = self.qdim.items
        if items[:len(q)] == q:
            return Dim(items[len(q):])
        raise Unsupported("sub-view selection on a buffer whose leading axes are not known to be the query axes "
                          "(buffer %r, query %r)" % (base, self.qdim), e)

    def slice_each_axis(self, v, clo, e):
        res = {}
        for cls in ('query', 'trailing'):
            self.scn['axis_class'] = cls
            ad = Enum('ndarray::AxisDescription', 'AxisDescription',
                      {'axis': Enum('ndarray::Axis', 'Axis', {'0': Num(Rat.atom('nr'))}),
                       'len': Num(Rat.atom('axlen')), 'stride': Num(Rat.atom('axstride'))})
            r = deref_all(self.interp.apply(clo, [ad], e))
            if not (isinstance(r, Obj) and r.kind == 'slice'):
                raise Unsupported("slice_each_axis_mut closure does not return a Slice", e)
            res[cls] = r
        self.scn.pop('axis_class', None)
        return self._unit_slice_view(v, res['query'], res['trailing'], e)

    def _unit_slice_view(self, v, q, t, e):
        idx = Rat.atom('e[nr]')
        ok_q = (q.d['start'] is not None and isinstance(q.d['start'], Num) and q.d['start'].r == idx and
                isinstance(q.d['end'], Num) and q.d['end'].r == idx + 1)
        ok_t = t.d['start'] is None and t.d['end'] is None
        self.events.append(('slice_each_axis', ok_q, ok_t))
        if not (ok_q and ok_t):
            raise Unsupported("sub-view selection is not (unit slice at the query index on query axes, full range on trailing axes): "
                              "query axes -> %r, trailing axes -> %r" % (q, t), e)
        return Obj('view', root=v.d['root'], rootkind=v.d['rootkind'], shape=v.d['shape'], base_shape=v.d['shape'],
                   lead='qidx-unit', ones=Rat.atom('len(Q)') if self.qdim.items and self.qdim.items[0][0] == 'seq' else Rat.const(len(self.qdim.items)))

    # ------------------------------------------------------------ loops
    def query_item(self, it):
        if it.kind == 'query_map':
            return self.interp.apply(it.d['clo'], [self.query_item(it.d['base'])], None)

        def item_of(o):
            q = o.d['of']
            elem = Ref(ValPlace(Num(Rat.atom('%s[e]' % q.d['name']))))
            return Tup([Obj('qidx', of=q), elem]) if o.kind == 'indexed_iter' else elem
        return Tup([item_of(o) for o in it.d['parts']]) if it.kind == 'query_zip' else item_of(it)

    def query_each(self, it, clo, fallible, e):
        """(try_)for_each over the query elements: two generic elements, the first error ends the iteration"""
        for tag in ('e', 'e2'):
            self.cur_elem = tag
            self.loop_elems += 1
            try:
                r = deref_all(self.interp.apply(clo, [self.query_item(it)], e))
            finally:
                self.cur_elem = None
            if fallible:
                if not (isinstance(r, Enum) and r.adt == 'std::result::Result'):
                    raise Unsupported("try_for_each closure must return a Result, got %r" % (r,), e)
                if r.variant == 'Err':
                    return r
        return OK(Unit()) if fallible else Unit()

    def range_fold(self, rng, init, clo, e):
        """fold over an index range: one inductive step on the accumulator, the unit-axis counter extrapolated over the trip count"""
        start, end = deref_all(rng.fields['start']), deref_all(rng.fields['end'])
        if not (isinstance(start, Num) and isinstance(end, Num)):
            raise Unsupported("fold bounds %r .. %r are not index expressions known to the model" % (start, end), e)
        trip = end.r - start.r
        acc = deref_all(init)
        r = deref_all(self.interp.apply(clo, [acc, Num(Rat.atom('loopvar'))], e))
        if isinstance(acc, Obj) and acc.kind == 'view' and isinstance(r, Obj) and r.kind == 'view' and acc.d.get('lead') == 'qidx-unit':
            delta = r.d['ones'] - acc.d['ones']
            out = Obj('view', **dict(r.d))
            out.d['ones'] = acc.d['ones'] + trip * delta
            return out
        raise Unsupported("fold over a range whose accumulator is not a view losing unit axes", e)

    def plain_loop(self, body, frame, e):
        """`while counter > 0 { view = view.index_axis_move(..); counter -= 1 }`: one inductive step, the unit-axis counters of the views
        extrapolated over the trip count (the counter's value on entry)"""
        cands, views = {}, {}
        f = frame
        while f is not None:
            for k, v in f.vars.items():
                if isinstance(v, Num) and k not in cands:
                    cands[k] = (f, v)
                if isinstance(v, Obj) and v.kind == 'view' and v.d.get('lead') == 'qidx-unit' and k not in views:
                    views[k] = (f, v)
            f = f.parent
        if not cands:
            raise Unsupported("loop (the rules never unroll loops; this one is not a counting loop over views)", e)
        if not views:
            return self._axis_loop(body, frame, cands, e)
        entry = {k: v for k, (f, v) in cands.items()}
        view_entry = {vk: f.vars[vk] for vk, (f, v0) in views.items()}
        changed = []
        self.loop_bound = None
        for k in cands:
            # one candidate counter at a time; everything else keeps its value
            for k2, (f2, v2) in cands.items():
                f2.vars[k2] = entry[k2]
            for vk, (f, v0) in views.items():
                f.vars[vk] = view_entry[vk]
            cands[k][0].vars[k] = Num(Rat.atom('loopc:' + k))
            self.loop_counter = 'loopc:' + k
            lf = Frame(frame)
            try:
                self.interp.eval(body, lf)
            except (BreakEx, Unsupported):
                continue
            finally:
                self.loop_counter = None
            now = cands[k][0].vars[k]
            if isinstance(now, Num) and (now.r - Rat.atom('loopc:' + k)) == Rat.const(-1):
                changed.append((k, entry[k].r, Num(0)))
                break
            if isinstance(now, Num) and (now.r - Rat.atom('loopc:' + k)) == Rat.const(1) and getattr(self, 'loop_bound', None) is not None:
                changed.append((k, self.loop_bound - entry[k].r, Num(self.loop_bound)))
                self.loop_bound = None
                break
            raise Unsupported("loop whose counter does not step by one towards its bound", e)
        if len(changed) != 1:
            for k2, (f2, v2) in cands.items():
                f2.vars[k2] = entry[k2]
            for vk, (f, v0) in views.items():
                f.vars[vk] = view_entry[vk]
            return self._axis_loop(body, frame, cands, e)
        k, trip, final = changed[0]
        for kk, (f, v) in cands.items():
            f.vars[kk] = entry[kk] if kk != k else final
        for vk, (f, v0) in views.items():
            v1 = f.vars[vk]
            if isinstance(v1, Obj) and v1.kind == 'view':
                delta = v1.d['ones'] - v0.d['ones']
                v1.d['ones'] = v0.d['ones'] + trip * delta
        return Unit()

    def _axis_loop(self, body, frame, cands, e):
        """`while nr < view.ndim() { view.slice_axis_inplace(Axis(nr), <slice for axis nr>); nr += 1 }`: what slice_each_axis_inplace does,
        spelled as a loop over the axis numbers - evaluated once per class of axis (query / trailing) with a symbolic axis number"""
        zero = [k for k, (f, v) in cands.items() if v.const() == 0]
        if len(zero) != 1:
            raise Unsupported("loop (the rules never unroll loops; this one is not a loop over the axis numbers of a view)", e)
        k = zero[0]
        f0 = cands[k][0]
        self._axis_slices = {}
        bound = None
        try:
            for cls in ('query', 'trailing'):
                self.scn['axis_class'] = cls
                f0.vars[k] = Num(Rat.atom('nr'))
                self.loop_counter, self.loop_bound = 'nr', None
                self.interp.eval(body, Frame(frame))
                now = f0.vars[k]
                if not (isinstance(now, Num) and now.r == Rat.atom('nr') + 1 and self.loop_bound is not None):
                    raise Unsupported("loop over axis numbers does not advance by one towards a bound", e)
                bound = self.loop_bound
        finally:
            self.scn.pop('axis_class', None)
            self.loop_counter = None
        if set(self._axis_slices) != {'query', 'trailing'} or self._axis_slices['query'][0] is not self._axis_slices['trailing'][0]:
            raise Unsupported("loop over axis numbers does not slice one view on every axis", e)
        v = self._axis_slices['query'][0]
        if not (bound == v.d['shape'].ndim()):
            raise Unsupported("loop over axis numbers does not cover all axes of the view", e)
        nv = self._unit_slice_view(v, self._axis_slices['query'][1], self._axis_slices['trailing'][1], e)
        v.d.clear()
        v.d.update(nv.d)
        f0.vars[k] = Num(bound)
        return Unit()

    def for_loop(self, iterable, pat, body, frame, e):
        it = deref_all(iterable)
        if isinstance(it, Obj) and it.kind == 'shape':
            it = Obj('dimseq', dim=it.d['dim'])
        if isinstance(it, Obj) and it.kind == 'dimseq' and isinstance(it.d['dim'], Dim):
            # `for len in lengths { v.push(*len) }`: one step with a generic element; a vector it is pushed onto grows by the whole sequence
            elem = Obj('dimelem', of=it)
            self._dim_pushes = []
            if not self.interp.match_pat(pat, ValPlace(Ref(ValPlace(elem))), frame) and not self.interp.match_pat(pat, ValPlace(elem), frame):
                raise Unsupported("loop pattern over axis lengths", e)
            self.interp.eval(body, frame)
            for vec, el in self._dim_pushes:
                if el is not elem:
                    raise Unsupported("a length from another loop pushed here", e)
                vec.d['dim'] = Dim(vec.d['dim'].items + it.d['dim'].items)
            self._dim_pushes = []
            return Unit()
        if isinstance(it, Obj) and it.kind == 'dimseq' and isinstance(it.d['dim'], Obj) and it.d['dim'].kind == 'qidx':
            # `for &idx in index.slice()`: one inductive step over the components of the element's own index; a view indexed at the
            # component on its leading axis in every step ends as the element's sub-view once all query axes are consumed
            before = {}
            f = frame
            while f is not None:
                for k, v in f.vars.items():
                    if isinstance(v, Obj) and v.kind == 'view' and k not in before:
                        before[k] = (f, v)
                f = f.parent
            if not self.interp.match_pat(pat, ValPlace(Ref(ValPlace(Num(Rat.atom('e[k]'))))), frame) and \
                    not self.interp.match_pat(pat, ValPlace(Num(Rat.atom('e[k]'))), frame):
                raise Unsupported("loop pattern over the components of the query index", e)
            self.interp.eval(body, frame)
            for k, (f, v0) in before.items():
                v1 = f.vars[k]
                if isinstance(v1, Obj) and v1.kind == 'view' and v1 is not v0 and v1.d.get('lead') == 'qidx-partial':
                    per = v1.d['qdrop'] - v0.d.get('qdrop', Rat.const(0))
                    total = v0.d.get('qdrop', Rat.const(0)) + per * self.qdim.ndim()
                    if not (per == Rat.const(1) and total == self.qdim.ndim()):
                        raise Unsupported("walking down the query axes does not consume exactly the query axes", e)
                    rest = self.after_query(v1.d['base_shape'], e)
                    self.events.append(('slice_each_axis', True, True, 'by indexing each query axis at the element\'s own position'))
                    f.vars[k] = Obj('view', root=v1.d['root'], rootkind=v1.d['rootkind'], shape=rest, lead='qidx', ones=Rat.const(0))
            return Unit()
        if isinstance(it, Obj) and it.kind in ('indexed_iter', 'query_iter', 'query_zip', 'query_map'):
            # two generic elements: e (scenario result of the sink) followed by e2 (sink succeeds);
            # an early return propagates as the function's result
            for tag in ('e', 'e2'):
                self.cur_elem = tag
                item = self.query_item(it)
                if not self.interp.match_pat(pat, ValPlace(item), frame):
                    raise Unsupported("loop pattern over indexed_iter", e)
                self.loop_elems += 1
                try:
                    self.interp.eval(body, frame)
                finally:
                    self.cur_elem = None
            return Unit()
        if isinstance(it, Enum) and it.adt == 'std::ops::Range':
            start, end = deref_all(it.fields['start']), deref_all(it.fields['end'])
            if not (isinstance(start, Num) and isinstance(end, Num)):
                raise Unsupported("loop bounds %r .. %r are not index expressions known to the model" % (start, end), e)
            trip = end.r - start.r
            # one inductive step on the view-typed variables, then extrapolate the unit-axis counter
            before = {}
            f = frame
            while f is not None:
                for k, v in f.vars.items():
                    if isinstance(v, Obj) and v.kind == 'view' and v.d.get('lead') == 'qidx-unit' and k not in before:
                        before[k] = (f, v)
                f = f.parent
            if not self.interp.match_pat(pat, ValPlace(Num(Rat.atom('loopvar'))), frame):
                raise Unsupported("loop pattern over a range", e)
            self.interp.eval(body, frame)
            for k, (f, v0) in before.items():
                v1 = f.vars[k]
                if isinstance(v1, Obj) and v1.kind == 'view':
                    delta = v1.d['ones'] - v0.d['ones']
                    v1.d['ones'] = v0.d['ones'] + trip * delta
            return Unit()
        raise Unsupported("loop over %r is not modelled" % (it,), e)

    def fold_while(self, z, init, clo, e):
        parts = z.d['parts']
        self.zips.append([repr(p) for p in parts])
        args = [init]
        for p in parts:
            if isinstance(p, Obj) and p.kind == 'ndarr' and p.d['role'] == 'query':
                args.append(Ref(ValPlace(Num(Rat.atom('%s[e]' % p.d['name'])))))
            elif isinstance(p, Obj) and p.kind == 'axis_iter_mut':
                v = p.d['of']
                args.append(Obj('view', root=v.d['root'], rootkind=v.d['rootkind'], shape=v.d['shape'].drop_first(e), lead='axis0[e]',
                                ones=Rat.const(0)))
            else:
                raise Unsupported("Zip operand %r in a batch fold" % (p,), e)
        # two generic elements: e (scenario result of the sink), then - unless the fold is Done - e2 (sink succeeds)
        acc = init
        r = None
        for tag in ('e', 'e2'):
            self.cur_elem = tag
            self.loop_elems += 1
            try:
                r = deref_all(self.interp.apply(clo, [acc] + args[1:], e))
            finally:
                self.cur_elem = None
            if not (isinstance(r, Enum) and r.adt == 'ndarray::FoldWhile'):
                raise Unsupported("fold_while closure must return FoldWhile, got %r" % (r,), e)
            self.events.append(('fold_step', tag, r.variant))
            if r.variant == 'Done':
                break
            acc = r.fields['0']
        return r

    def zip_fold(self, z, init, clo, e):
        """Zip::fold: the step runs for every element, whatever it returns (no early exit): two generic elements"""
        parts = z.d['parts']
        self.zips.append([repr(p) for p in parts])
        args = []
        for p in parts:
            if isinstance(p, Obj) and p.kind == 'ndarr' and p.d['role'] == 'query':
                args.append(Ref(ValPlace(Num(Rat.atom('%s[e]' % p.d['name'])))))
            elif isinstance(p, Obj) and p.kind == 'axis_iter_mut':
                v = p.d['of']
                args.append(Obj('view', root=v.d['root'], rootkind=v.d['rootkind'], shape=v.d['shape'].drop_first(e), lead='axis0[e]',
                                ones=Rat.const(0)))
            else:
                raise Unsupported("Zip operand %r in a batch fold" % (p,), e)
        acc = init
        for tag in ('e', 'e2'):
            self.cur_elem = tag
            self.loop_elems += 1
            try:
                acc = self.interp.apply(clo, [acc] + args, e)
            finally:
                self.cur_elem = None
            self.events.append(('fold_step', tag, 'Continue'))
        return acc

    def zip_all(self, z, clo, is_all, e):
        """Zip::all / Zip::any: the predicate runs element by element until it answers false (all) / true (any): two generic elements"""
        parts = z.d['parts']
        self.zips.append([repr(p) for p in parts])
        args = []
        for p in parts:
            if isinstance(p, Obj) and p.kind == 'ndarr' and p.d['role'] == 'query':
                args.append(Ref(ValPlace(Num(Rat.atom('%s[e]' % p.d['name'])))))
            elif isinstance(p, Obj) and p.kind == 'axis_iter_mut':
                v = p.d['of']
                args.append(Obj('view', root=v.d['root'], rootkind=v.d['rootkind'], shape=v.d['shape'].drop_first(e), lead='axis0[e]',
                                ones=Rat.const(0)))
            else:
                raise Unsupported("Zip operand %r in a batch predicate" % (p,), e)
        for tag in ('e', 'e2'):
            self.cur_elem = tag
            self.loop_elems += 1
            try:
                r = deref_all(self.interp.apply(clo, args, e))
            finally:
                self.cur_elem = None
            if not isinstance(r, B):
                raise Unsupported("the predicate handed to Zip::%s is not decided: %r" % ('all' if is_all else 'any', r), e)
            self.events.append(('fold_step', tag, 'Done' if r.b != is_all else 'Continue'))
            if r.b != is_all:
                return B(not is_all)
        return B(is_all)

    # ------------------------------------------------------------ sink
    def sink(self, args, e):
        strat = deref_all(args[0])
        interp = deref_all(args[1])
        target = deref_all(args[2])
        qs = [deref_all(a) for a in args[3:]]
        rec = {
            'elem': getattr(self, 'cur_elem', None),
            'self_is_strategy_field': strat is self.ip_strategy,
            'interp_is_self': interp is self.ip,
            'target': target,
            'queries': [str(q.r) if isinstance(q, Num) else repr(q) for q in qs],
            'where': line_of(e),
        }
        self.sinks.append(rec)
        res = self.scn.get('sink', 'ok')
        if getattr(self, 'cur_elem', None) == 'e2':
            res = 'ok'          # the element after the failing one succeeds
        if isinstance(target, Obj) and target.kind == 'view' and target.d['rootkind'] == 'scalarbuf' and res == 'ok':
            root = target.d['root']
            for i in range(len(root.items)):
                root.items[i] = Num(Rat.atom('sink_out'))
        if res == 'ok':
            return OK(Unit())
        self.err_token = Enum('InterpolateError', 'OutOfBounds', {'0': Obj('custom-error-payload')})
        return ERR(self.err_token)

