"""Runs the abstract evaluator over the three built-in strategy kernels for
every scenario of the finite guard table and returns what each path does."""
from .absint import *
from .kmodel import *
from .thir import Lib

LIN = '<Linear as Interp1DStrategy>::interp_into'
SPL = '<CubicSplineStrategy as Interp1DStrategy>::interp_into'
BIL = '<Bilinear as Interp2DStrategy>::interp_into'


STRICT = False     # True while rules about rejection / panic freedom run (C05, C06 guard tables, C14)


class strict:
    def __enter__(self):
        global STRICT
        self.prev = STRICT
        STRICT = True

    def __exit__(self, *a):
        global STRICT
        STRICT = self.prev


class Outcome:
    def __init__(self, scn, kind, model, value=None, err=None, exc=None):
        self.scn, self.kind, self.m, self.value, self.err, self.exc = scn, kind, model, value, err, exc

    def __repr__(self):
        return "Outcome(%s %s writes=%d)" % (self.scn, self.kind, len(self.m.writes))


def _classify(out):
    out = deref_all(out)
    if isinstance(out, Enum) and out.adt == 'std::result::Result':
        if out.variant == 'Ok':
            return 'ok', None
        err = deref_all(out.fields['0'])
        if isinstance(err, Enum):
            return 'err', "%s::%s" % (err.adt, err.variant)
        return 'err', repr(err)
    return 'other', repr(out)


def _run(lib, path, scn, make_strategy, make_interp, qs):
    b = lib.body(path)
    m = KModel(scn)
    m.assume_asserts = not STRICT
    it = Interp(lib, m)
    try:
        if b is None:
            raise Unsupported("strategy kernel `%s` not found" % path)
        strat = make_strategy()
        io = make_interp(strat)
        out = it.call_def(b['def'], [Ref(ValPlace(strat)), Ref(ValPlace(io)), Obj('target')] + [Num(Rat.atom(q)) for q in qs])
        kind, err = _classify(out)
        return Outcome(scn, kind, m, out, err)
    except (Unsupported, Diverge) as ex:
        return Outcome(scn, 'exc', m, exc=ex)


def run_linear(lib, ext, rel, strategy=None):
    from . import strategies as S
    scn = {'queries': {'q': 'x'}, 'rel_x': rel, 'ext': ext}
    return _run(lib, LIN, scn, (lambda: strategy) if strategy is not None else (lambda: S.linear(lib, ext)), interp1d_obj, ['q'])


def run_spline(lib, ext, rel, strategy=None):
    """ext in ('Yes','No','Periodic'): the strategy as built through the public builder with (flag, boundary) =
    (true, NotAKnot) / (false, NotAKnot) / (true, Periodic); or an explicit finished strategy value"""
    from . import strategies as S
    scn = {'queries': {'q': 'x'}, 'rel_x': rel, 'ext': ext}
    return _run(lib, SPL, scn, (lambda: strategy) if strategy is not None else (lambda: S.spline_by_mode(lib, ext)), interp1d_obj, ['q'])


def run_bilinear(lib, ext, relx, rely, strategy=None):
    from . import strategies as S
    scn = {'queries': {'qx': 'x', 'qy': 'y'}, 'rel_x': relx, 'rel_y': rely, 'ext': ext}
    return _run(lib, BIL, scn, (lambda: strategy) if strategy is not None else (lambda: S.bilinear(lib, ext)), interp2d_obj, ['qx', 'qy'])


def behaviour_class(lib, strategy, family='S'):
    """what a finished 1-D strategy does with an out-of-range query, read off the guard table:
    'rejects' | 'extrapolates' (computes from the unmodified query) | 'wraps' (computes from a shifted query) | 'mixed: ...'"""
    import copy
    res = []
    for rel in ('below', 'above'):
        o = (run_spline if family == 'S' else run_linear)(lib, None, rel, strategy=copy.deepcopy(strategy))
        if o.kind == 'err' and o.err == OOB:
            res.append('rejects')
        elif o.kind == 'ok':
            args = [str(v) for _, v in o.m.lookups]
            res.append('extrapolates' if args and all(a == 'q' for a in args) else 'wraps')
        else:
            res.append('%s:%s' % (o.kind, o.err or o.exc))
    return res[0] if res[0] == res[1] else 'mixed: below %s, above %s' % tuple(res)


def in_range(rel):
    return rel in ('first', 'inside', 'last')


OOB = 'InterpolateError::OutOfBounds'
