"""Runs the abstract evaluator over the three built-in strategy kernels for
every scenario of the finite guard table and returns what each path does."""
from .absint import *
from .kmodel import *
from .thir import Lib

LIN = '<interp1d::strategies::linear::Linear as interp1d::strategies::Interp1DStrategy>::interp_into'
SPL = '<interp1d::strategies::cubic_spline::CubicSplineStrategy as interp1d::strategies::Interp1DStrategy>::interp_into'
BIL = '<interp2d::strategies::bilinear::Bilinear as interp2d::strategies::Interp2DStrategy>::interp_into'
EXTRAP = 'interp1d::strategies::cubic_spline::Extrapolate'


STRICT = False     # True while rules about rejection / panic freedom run (C05, C06 guard tables, C14)


class strict:
    def __enter__(self):
        global STRICT
        self.prev = STRICT
        STRICT = True

    def __exit__(self, *a):
        global STRICT
        STRICT = self.prev


class Outcome:
    def __init__(self, scn, kind, model, value=None, err=None, exc=None):
        self.scn, self.kind, self.m, self.value, self.err, self.exc = scn, kind, model, value, err, exc

    def __repr__(self):
        return "Outcome(%s %s writes=%d)" % (self.scn, self.kind, len(self.m.writes))


def _classify(out):
    out = deref_all(out)
    if isinstance(out, Enum) and out.adt == 'std::result::Result':
        if out.variant == 'Ok':
            return 'ok', None
        err = deref_all(out.fields['0'])
        if isinstance(err, Enum):
            return 'err', "%s::%s" % (err.adt, err.variant)
        return 'err', repr(err)
    return 'other', repr(out)


def run_linear(lib, ext, rel):
    b = lib.body(LIN)
    scn = {'queries': {'q': 'x'}, 'rel_x': rel, 'ext': ext}
    m = KModel(scn)
    m.assume_asserts = not STRICT
    it = Interp(lib, m)
    strat = Enum('interp1d::strategies::linear::Linear', 'Linear', {'extrapolate': B(ext)})
    io = interp1d_obj(strat)
    try:
        out = it.call_def(b['def'], [Ref(ValPlace(strat)), Ref(ValPlace(io)), Obj('target'), Num(Rat.atom('q'))])
        kind, err = _classify(out)
        return Outcome(scn, kind, m, out, err)
    except (Unsupported, Diverge) as ex:
        return Outcome(scn, 'exc', m, exc=ex)


def run_spline(lib, ext, rel):
    """ext in ('Yes','No','Periodic')"""
    b = lib.body(SPL)
    scn = {'queries': {'q': 'x'}, 'rel_x': rel, 'ext': ext}
    m = KModel(scn)
    m.assume_asserts = not STRICT
    it = Interp(lib, m)
    strat = Enum('interp1d::strategies::cubic_spline::CubicSplineStrategy', 'CubicSplineStrategy',
                 {'a': Obj('data', name='a', lead=1, idx=[]), 'b': Obj('data', name='b', lead=1, idx=[]),
                  'extrapolate': Enum(EXTRAP, ext)})
    io = interp1d_obj(strat)
    try:
        out = it.call_def(b['def'], [Ref(ValPlace(strat)), Ref(ValPlace(io)), Obj('target'), Num(Rat.atom('q'))])
        kind, err = _classify(out)
        return Outcome(scn, kind, m, out, err)
    except (Unsupported, Diverge) as ex:
        return Outcome(scn, 'exc', m, exc=ex)


def run_bilinear(lib, ext, relx, rely):
    b = lib.body(BIL)
    scn = {'queries': {'qx': 'x', 'qy': 'y'}, 'rel_x': relx, 'rel_y': rely, 'ext': ext}
    m = KModel(scn)
    m.assume_asserts = not STRICT
    it = Interp(lib, m)
    strat = Enum('interp2d::strategies::bilinear::Bilinear', 'Bilinear', {'extrapolate': B(ext)})
    io = interp2d_obj(strat)
    try:
        out = it.call_def(b['def'], [Ref(ValPlace(strat)), Ref(ValPlace(io)), Obj('target'),
                                     Num(Rat.atom('qx')), Num(Rat.atom('qy'))])
        kind, err = _classify(out)
        return Outcome(scn, kind, m, out, err)
    except (Unsupported, Diverge) as ex:
        return Outcome(scn, 'exc', m, exc=ex)


def in_range(rel):
    return rel in ('first', 'inside', 'last')


OOB = 'InterpolateError::OutOfBounds'
