"""Independent re-check (thorough tier) of the polynomial identities decided by ndi/poly.py, with sympy from the tooling venv.
Input: JSON list of pairs of rational functions (numerator/denominator term lists). Output: JSON {checked, disagreements}."""
import json, sys
import sympy


def build(raw, syms):
    def poly(terms):
        e = sympy.Integer(0)
        for c, mono in terms:
            t = sympy.Rational(c)
            for a, ex in mono:
                if a not in syms:
                    syms[a] = sympy.Symbol('s%d' % len(syms))
                t = t * syms[a] ** ex
            e += t
        return e
    return poly(raw['n']), poly(raw['d'])


def main():
    data = json.load(open(sys.argv[1]))
    bad = []
    n = 0
    for i, (a, b) in enumerate(data.get('equalities', [])):
        syms = {}
        an, ad = build(a, syms)
        bn, bd = build(b, syms)
        diff = sympy.expand(an * bd - bn * ad)
        n += 1
        if diff != 0:
            bad.append(('eq', i))
    m = 0
    for i, (inp, mapping, out) in enumerate(data.get('substitutions', [])):
        syms = {}
        inn, ind = build(inp, syms)
        on, od = build(out, syms)
        sub = {}
        for k, v in mapping.items():
            vn, vd = build(v, syms)
            if k not in syms:
                syms[k] = sympy.Symbol('s%d' % len(syms))
            sub[syms[k]] = vn / vd
        lhs = (inn / ind).subs(sub, simultaneous=True)
        diff = sympy.simplify(sympy.together(lhs - on / od))
        m += 1
        if diff != 0:
            bad.append(('subs', i))
    json.dump({'equalities_checked': n, 'substitutions_checked': m, 'disagreements': bad}, sys.stdout)


if __name__ == '__main__':
    main()
