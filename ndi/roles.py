"""Private helpers are located by their role in the call graph, not by their name.

The build side of the cubic spline hangs off one public anchor, `<CubicSpline as Interp1DStrategyBuilder>::build`.
The functions it reaches are recognised by signature shape (ndarray's types are external and stable) and call-graph
position; the names used in the checks' texts (`CubicSpline::thomas`, ...) become aliases of whatever the functions
are called - and wherever they live - in the analysed tree.  A role that cannot be resolved uniquely keeps its literal
name (and the anchor then fails closed if that does not exist either)."""
from .thir import strip_generics

BUILD_SPL = '<CubicSpline as Interp1DStrategyBuilder>::build'


def _fn_bodies(lib):
    return {strip_generics(d): b for d, b in lib.bodies.items() if b.get('kind') != 'closure' and '{closure' not in d}


def _callees(lib, body, fns):
    return sorted({p for p, _ in lib.local_callees(body) if p in fns})


def _reach(lib, root, fns):
    seen, todo = [], [root]
    while todo:
        p = todo.pop()
        if p in seen or p not in fns:
            continue
        seen.append(p)
        todo += _callees(lib, fns[p], fns)
    return seen


def _is_arr(ty, dim1=None, mutview=False):
    import re
    t = re.sub(r"^&\s*('\w+\s+)?", '', ty).replace('mut ', '', 1).strip()
    if not t.startswith('ndarray::ArrayBase<'):
        return False
    if mutview and 'ViewRepr<&mut ' not in ty and "ViewRepr<&'" not in ty:
        return False
    one = t.endswith('ndarray::Dim<[usize; 1]>>')
    return one if dim1 else (not one if dim1 is False else True)


def solver_param_roles(lib, ps):
    """the parameters of the tridiagonal solver, in any order: one mutable lane view (k: 'k'), one other lane array (rhs: 'rhs') and
    exactly three 1-D coefficient arrays, passed one by one ('coef') or as the fields of a private struct ('coefs'); None if `ps` is not that"""
    adts = {a['path']: a for a in lib.f.get('adts', [])}
    roles = []
    ncoef = 0
    for ty in ps:
        t = strip_generics(ty.lstrip('&').replace('mut ', '', 1).strip())
        if _is_arr(ty, dim1=True):
            roles.append('coef')
            ncoef += 1
        elif t.startswith('ndarray::ArrayBase') and 'ViewRepr<&mut ' in ty.replace("&'a mut", '&mut'):
            roles.append('k')
        elif _is_arr(ty, dim1=False):
            roles.append('rhs')
        elif t in adts and adts[t].get('kind') == 'Struct' and adts[t].get('variants'):
            n1 = sum(1 for f_ in adts[t]['variants'][0]['fields'] if _is_arr(f_['ty'], dim1=True))
            if n1 == 0:
                return None
            roles.append('coefs')
            ncoef += n1
        else:
            return None
    if roles.count('k') != 1 or roles.count('rhs') != 1 or ncoef != 3:
        return None
    return roles


def entry_param_roles(lib, ps):
    """the parameters of the per-system assembly / the per-lane dispatcher, in any order: the slopes (a mutable view: 'k'), the axis
    (a 1-D array, 'x', or a private struct that holds it in one field: ('holder', field)), the data ('data') and the boundary
    (a local enum, or an array of one: 'boundary'); None if `ps` is not that"""
    import re
    adts = {a['path']: a for a in lib.f.get('adts', [])}
    roles = []
    for ty in ps:
        t = strip_generics(ty.lstrip('&').replace('mut ', '', 1).strip())
        m = re.search(r'ViewRepr<&(\w+)<', ty)
        if 'ViewRepr<&mut ' in ty.replace("&'a mut", '&mut'):
            roles.append('k')
        elif t.startswith('ndarray::ArrayBase') and m and m.group(1) in adts:
            roles.append('boundary')
        elif _is_arr(ty, dim1=True):
            roles.append('x')
        elif t.startswith('ndarray::ArrayBase'):
            roles.append('data')
        elif t in adts and adts[t].get('kind') == 'Enum':
            roles.append('boundary')
        elif t in adts and adts[t].get('kind') == 'Struct' and adts[t].get('variants'):
            fs = [f_['name'] for f_ in adts[t]['variants'][0]['fields'] if _is_arr(f_['ty'], dim1=True)]
            if len(fs) != 1 or len(adts[t]['variants'][0]['fields']) != 1:
                return None
            roles.append(('holder', fs[0], t, adts[t]['variants'][0]['name']))
        else:
            return None
    flat = ['x' if isinstance(r, tuple) else r for r in roles]
    if sorted(flat) != ['boundary', 'data', 'k', 'x']:
        return None
    return roles


def resolve(lib):
    fns = _fn_bodies(lib)
    al = {}
    # the identity cast: the crate's only `unsafe fn`
    uf = [p for p, b in fns.items() if b.get('unsafe') is True]
    if len(uf) == 1:
        al['cast_unchecked'] = uf[0]
    # the crate-internal "dimension from a sequence of lengths" constructor: the local trait method implemented for ndarray's Dim<[usize; N]>
    import re
    tm = set()
    for p in fns:
        m = re.match(r'^<ndarray::Dim as (\w+)>::(\w+)$', p)
        if m:
            tm.add((m.group(1), m.group(2)))
    if len(tm) == 1:
        t, meth = list(tm)[0]
        al['DimExtension::new'] = '%s::%s' % (t, meth)
    if BUILD_SPL not in fns:
        return {k: v for k, v in al.items() if k != v}
    reach = _reach(lib, BUILD_SPL, fns)
    note = {}

    def params(p):
        return [x.get('ty', '') if isinstance(x, dict) else str(x) for x in fns[p].get('params', [])]

    # the tridiagonal solver: k (a mutable lane view) first, rhs (a lane array) last, and in between exactly three 1-D coefficient
    # arrays - passed one by one or as the fields of a private struct
    adts = {a['path']: a for a in lib.f.get('adts', [])}

    def coeff_arrays(ty):
        t = strip_generics(ty.lstrip('&').replace('mut ', '', 1).strip())
        if _is_arr(ty, dim1=True):
            return 1
        a = adts.get(t)
        if a and a.get('kind') == 'Struct' and a.get('variants'):
            return sum(1 for f_ in a['variants'][0]['fields'] if _is_arr(f_['ty'], dim1=True))
        return None

    def is_solver(p):
        return solver_param_roles(lib, params(p)) is not None
    th = [p for p in reach if is_solver(p)]
    if len(th) > 1:
        # a solver split into phases that each look like one: the outermost (not called by another candidate) is the solver
        inner = {c for p in th for c in _callees(lib, fns[p], fns) if c in th and c != p}
        th = [p for p in th if p not in inner]
    if len(th) == 1:
        al['CubicSpline::thomas'] = th[0]
    thomas = al.get('CubicSpline::thomas', 'CubicSpline::thomas')
    # the per-system assembly: the one function that calls the solver
    sfk = [p for p in reach if p != thomas and thomas in _callees(lib, fns[p], fns)]
    if len(sfk) == 1:
        al['CubicSpline::solve_for_k'] = sfk[0]
    sfk_n = al.get('CubicSpline::solve_for_k', 'CubicSpline::solve_for_k')
    # the per-lane dispatcher: self-recursive and calls the assembly
    ind = [p for p in reach if p != sfk_n and p in _callees(lib, fns[p], fns) and sfk_n in _callees(lib, fns[p], fns)]
    if len(ind) == 1:
        al['CubicSpline::solve_for_k_individual'] = ind[0]
    # the coefficient routine: returns the pair of coefficient arrays
    calc = [p for p in reach if p != BUILD_SPL and 'Result<(ndarray::ArrayBase<' in (fns[p].get('sig') or '').replace('std::result::', '')]
    if len(calc) == 1:
        al['CubicSpline::calc_coefficients'] = calc[0]
    return {k: v for k, v in al.items() if k != v}
