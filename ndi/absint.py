"""Abstract evaluator over the typed expression trees (THIR facts).

It is *not* an interpreter of the program: numeric values are elements of the
ring of rational functions over named atoms (ndi.poly), comparisons are
decided by a finite scenario table supplied by the rule (a lookup, no solver),
library calls are answered by a per-rule *model* of the ndarray/std surface,
and loops are never unrolled (a rule may ask for one inductive step of a loop
body).  Anything the model does not know raises `Unsupported`, which the rules
turn into a fail-closed report naming the construct.
"""
from fractions import Fraction
import re
from .poly import Rat, Poly
from .thir import strip_generics, line_of


class Unsupported(Exception):
    def __init__(self, why, e=None, tag=None):
        self.why = why
        self.tag = tag or ('array-op' if ('reviewed' in why and 'surface' in why) or 'Zip operand' in why or 'lane array' in why else 'other')
        self.where = line_of(e) if e is not None else ''
        super().__init__("%s at %s" % (why, self.where))


class Diverge(Exception):
    """evaluation reached a panic / unreachable!/ unimplemented!"""
    def __init__(self, kind, e=None):
        self.kind = kind
        self.where = line_of(e) if e is not None else ''
        super().__init__("%s at %s" % (kind, self.where))


class ReturnEx(Exception):
    def __init__(self, v):
        self.v = v


class BreakEx(Exception):
    def __init__(self, v):
        self.v = v


class ContinueEx(Exception):
    pass


# ---------------------------------------------------------------- values
class V:
    pass


class Num(V):
    __slots__ = ('r',)

    def __init__(self, r):
        self.r = r if isinstance(r, Rat) else Rat(Poly.const(r)) if isinstance(r, (int, Fraction)) else Rat(r)

    def __repr__(self):
        return "Num(%s)" % self.r

    def const(self):
        if self.r.is_poly() and self.r.as_poly().is_const():
            return self.r.as_poly().const_value()
        return None


class B(V):
    __slots__ = ('b',)

    def __init__(self, b):
        self.b = bool(b)

    def __repr__(self):
        return "B(%s)" % self.b


class Unit(V):
    def __repr__(self):
        return "()"


class Tup(V):
    def __init__(self, items):
        self.items = list(items)

    def __repr__(self):
        return "Tup(%r)" % (self.items,)


class Enum(V):
    """enum variant or struct value"""
    def __init__(self, adt, variant, fields=None):
        self.adt = adt
        self.variant = variant
        self.fields = dict(fields or {})

    def __repr__(self):
        if self.fields:
            return "%s::%s%r" % (self.adt.split('::')[-1], self.variant, self.fields)
        return "%s::%s" % (self.adt.split('::')[-1], self.variant)

    def key(self):
        return (self.adt, self.variant, tuple(sorted((k, _vkey(v)) for k, v in self.fields.items())))


def _vkey(v):
    if isinstance(v, Enum):
        return v.key()
    if isinstance(v, B):
        return v.b
    if isinstance(v, Num):
        return str(v.r)
    if isinstance(v, Tup):
        return tuple(_vkey(x) for x in v.items)
    return repr(v)


class Ref(V):
    def __init__(self, place, mut=False):
        self.place = place
        self.mut = mut

    def __repr__(self):
        return "&%r" % (self.place,)


class Clo(V):
    def __init__(self, def_path, frame):
        self.def_path = def_path
        self.frame = frame

    def __repr__(self):
        return "Clo(%s)" % self.def_path.split('::')[-1]


class Obj(V):
    """model-defined symbolic object (array, zip, iterator, string, ...)"""
    def __init__(self, kind, **data):
        self.kind = kind
        self.d = data

    def __repr__(self):
        return "Obj(%s %s)" % (self.kind, {k: v for k, v in self.d.items() if k != 'store'})


class Opaque(V):
    """result of a call the model does not know, made on harmless arguments: irrelevant unless it is USED"""
    def __init__(self, why):
        self.why = why

    def __repr__(self):
        return "Opaque(%s)" % self.why


MUTABLE_KINDS = ('target', 'rowmut', 'arr1', 'arr2', 'view', 'lanesvar', 'zip', 'ndarr', 'axis_iter_mut', 'dyn', 'dyniter', 'vec')


def harmless(v, depth=0):
    """an argument through which an unknown callee cannot change or observe-and-feed-back tracked state"""
    if depth > 6:
        return False
    if isinstance(v, (Num, B, Unit, Opaque)):
        return True
    if isinstance(v, Ref):
        inner = v.place.get() if not isinstance(v.place, FnPlace) else None
        if isinstance(v.place, FnPlace):
            return False
        if v.mut and not isinstance(deref_all(inner), Opaque):
            return False
        return harmless(inner, depth + 1)
    if isinstance(v, Tup):
        return all(harmless(x, depth + 1) for x in v.items)
    if isinstance(v, Enum):
        return all(harmless(x, depth + 1) for x in v.fields.values())
    if isinstance(v, Obj):
        return v.kind not in MUTABLE_KINDS
    return False


def OK(v=None):
    return Enum('std::result::Result', 'Ok', {'0': v if v is not None else Unit()})


def ERR(v):
    return Enum('std::result::Result', 'Err', {'0': v})


def SOME(v):
    return Enum('std::option::Option', 'Some', {'0': v})


NONE = Enum('std::option::Option', 'None', {})


# ---------------------------------------------------------------- places
class Place:
    def get(self):
        raise NotImplementedError

    def set(self, v):
        raise NotImplementedError


class VarPlace(Place):
    def __init__(self, frame, var):
        self.frame, self.var = frame, var

    def get(self):
        return self.frame.lookup(self.var)

    def set(self, v):
        self.frame.assign(self.var, v)

    def __repr__(self):
        return "var(%s)" % self.var


class ValPlace(Place):
    def __init__(self, v):
        self.v = v

    def get(self):
        return self.v

    def set(self, v):
        self.v = v

    def __repr__(self):
        return "tmp(%r)" % (self.v,)


class FieldPlace(Place):
    def __init__(self, base, name):
        self.base, self.name = base, name

    def get(self):
        b = deref_all(self.base.get())
        if isinstance(b, Enum):
            if self.name not in b.fields:
                return Opaque("field `%s`" % self.name)
            return b.fields[self.name]
        if isinstance(b, Opaque):
            return Opaque("%s.%s" % (b.why, self.name))
        if isinstance(b, Tup):
            return b.items[int(self.name)]
        if isinstance(b, Obj) and 'fields' in b.d and self.name in b.d['fields']:
            return b.d['fields'][self.name]
        raise Unsupported("field `%s` of %r" % (self.name, b))

    def set(self, v):
        b = deref_all(self.base.get())
        if isinstance(b, Enum):
            b.fields[self.name] = v
        elif isinstance(b, Tup):
            b.items[int(self.name)] = v
        elif isinstance(b, Obj) and 'fields' in b.d:
            b.d['fields'][self.name] = v
        else:
            raise Unsupported("assignment to field `%s` of %r" % (self.name, b))

    def __repr__(self):
        return "%r.%s" % (self.base, self.name)


class FnPlace(Place):
    def __init__(self, getter, setter=None, label=''):
        self.g, self.s, self.label = getter, setter, label

    def get(self):
        return self.g()

    def set(self, v):
        if self.s is None:
            raise Unsupported("write to read-only place %s" % self.label)
        self.s(v)

    def __repr__(self):
        return "place(%s)" % self.label


def deref_all(v):
    while isinstance(v, Ref):
        v = v.place.get()
    return v


class Frame:
    def __init__(self, parent=None):
        self.vars = {}
        self.parent = parent

    def lookup(self, var):
        f = self
        while f is not None:
            if var in f.vars:
                return f.vars[var]
            f = f.parent
        raise Unsupported("unbound variable %s" % var)

    def assign(self, var, v):
        f = self
        while f is not None:
            if var in f.vars:
                f.vars[var] = v
                return
            f = f.parent
        self.vars[var] = v

    def bind(self, var, v):
        self.vars[var] = v


# ---------------------------------------------------------------- model base
class Model:
    """Answers library calls and decides comparisons.  Subclass per rule."""

    def __init__(self):
        self.interp = None
        self.trace = []           # recognised callees (evidence)
        self.inline_depth = 0

    # comparisons between symbolic numbers: finite scenario lookup
    def compare(self, op, a, b, e):
        ca, cb = (a.const() if isinstance(a, Num) else None), (b.const() if isinstance(b, Num) else None)
        if ca is not None and cb is not None:
            return {'lt': ca < cb, 'le': ca <= cb, 'gt': ca > cb, 'ge': ca >= cb, 'eq': ca == cb, 'ne': ca != cb}[op]
        if isinstance(a, Num) and isinstance(b, Num) and a.r == b.r:
            return {'eq': True, 'le': True, 'ge': True, 'ne': False, 'lt': False, 'gt': False}[op]      # the same expression on both sides
        if isinstance(a, B) and isinstance(b, B):
            return {'eq': a.b == b.b, 'ne': a.b != b.b}[op]
        if isinstance(a, Enum) and isinstance(b, Enum):
            return {'eq': a.key() == b.key(), 'ne': a.key() != b.key()}[op]
        raise Unsupported("comparison %s between %r and %r is not decided by the scenario table" % (op, a, b), e)

    def named_const(self, def_path, node):
        return NotImplemented

    def for_loop(self, iterable, pat, body, frame, e):
        raise Unsupported("loop (the rules never unroll loops; this one is not modelled)", e)

    def slice_pattern(self, obj, npre, nsuf, has_rest):
        """places of the prefix + suffix elements if `obj` (a slice-like model object) matches, None if it does not"""
        return NotImplemented

    def plain_loop(self, body, frame, e):
        raise Unsupported("`loop`/`while` is not modelled", e)

    def inline_ok(self, norm_path):
        return True

    def call(self, name, cal, args, e, frame):
        """name: generic-stripped path (resolved impl if the compiler resolved one)."""
        return NotImplemented

    def field_of_opaque(self, base, name, e):
        return NotImplemented


CMP = {'std::cmp::PartialOrd::lt': 'lt', 'std::cmp::PartialOrd::le': 'le', 'std::cmp::PartialOrd::gt': 'gt',
       'std::cmp::PartialOrd::ge': 'ge', 'std::cmp::PartialEq::eq': 'eq', 'std::cmp::PartialEq::ne': 'ne'}
ARITH = {'std::ops::Add::add': '+', 'std::ops::Sub::sub': '-', 'std::ops::Mul::mul': '*', 'std::ops::Div::div': '/'}


def num_binop(op, a, b, e=None):
    if not (isinstance(a, Num) and isinstance(b, Num)):
        raise Unsupported("arithmetic `%s` on non-numeric values %r, %r" % (op, a, b), e)
    if op == '+':
        return Num(a.r + b.r)
    if op == '-':
        return Num(a.r - b.r)
    if op == '*':
        return Num(a.r * b.r)
    if op == '/':
        if b.r.is_zero():
            raise Unsupported("division by an identically zero expression", e)
        if isinstance(e, dict) and e.get('ty') in ('usize', 'isize', 'u8', 'u16', 'u32', 'u64', 'i8', 'i16', 'i32', 'i64') and \
                a.const() is not None and b.const() is not None and a.const().denominator == 1 and b.const().denominator == 1 and a.const() >= 0 and b.const() > 0:
            return Num(int(a.const()) // int(b.const()))          # integer division of two known non-negative integers
        return Num(a.r / b.r)
    raise Unsupported("operator " + op, e)


class Interp:
    def __init__(self, lib, model):
        self.lib = lib
        self.model = model
        model.interp = self
        self.crate = lib.f['crate']
        self.steps = 0
        self.inlined = []
        self.opaque_calls = []
        self.assumed_asserts = []
        self.mut_vars = set()

    # ------------------------------------------------------------ calls
    def call_def(self, def_path, args, e=None, gargs=None):
        """Evaluate the body of a crate-local fn (by exact def path) on abstract arguments."""
        body = self.lib.bodies.get(def_path)
        if body is None or body.get('stolen'):
            raise Unsupported("no body for %s" % def_path, e)
        fr = Frame()
        # type arguments of this call, by the callee's parameter names (resolved through the caller's own environment)
        env = {}
        names = body.get('generics') or []
        if gargs and len(gargs) == len(names):
            outer = getattr(self, 'tyenv', [])
            for n_, g_ in zip(names, gargs):
                for o in reversed(outer):
                    if g_ in o:
                        g_ = o[g_]
                        break
                env[n_] = g_
        self.tyenv = getattr(self, 'tyenv', []) + [env]
        try:
            return self._run_body(body, args, fr, e)
        finally:
            self.tyenv.pop()

    def call_norm(self, norm, args, e=None):
        b = self.lib.body(norm)
        if b is None:
            raise Unsupported("no unique body for %s" % norm, e)
        return self.call_def(b['def'], args, e)

    def apply(self, clo, args, e=None):
        """Apply an abstract closure value to abstract arguments."""
        clo = deref_all(clo)
        if isinstance(clo, Obj) and clo.kind == 'fnitem':
            ctor = clo.d['cal'].get('ctor')
            if ctor:        # `Err`, `Some`, `ShapeError` ... used as a function: builds the variant from its positional fields
                return Enum(strip_generics(ctor['adt']), ctor['variant'], {str(i): a for i, a in enumerate(args)})
            return self._call_path(clo.d['cal'], args, e, None)
        if not isinstance(clo, Clo):
            raise Unsupported("call of non-closure %r" % (clo,), e)
        body = self.lib.bodies.get(clo.def_path)
        if body is None:
            raise Unsupported("no body for closure %s" % clo.def_path, e)
        fr = Frame(parent=clo.frame)
        # closure bodies have an implicit first parameter (the closure itself)
        params = body['params']
        if params and params[0].get('pat') is None:
            params = params[1:]
        return self._run_body(body, args, fr, e, params)

    def _run_body(self, body, args, fr, e, params=None):
        params = body['params'] if params is None else params
        if len(params) != len(args):
            raise Unsupported("arity mismatch calling %s (%d params, %d args)" % (body['def'], len(params), len(args)), e)
        for p, a in zip(params, args):
            if p.get('pat') is None:
                continue
            if not self.match_pat(p['pat'], ValPlace(a), fr):
                raise Unsupported("parameter pattern of %s does not match %r" % (body['def'], a), e)
        self.inlined.append(strip_generics(body['def']))
        self.model.inline_depth += 1
        try:
            if self.model.inline_depth > 12:
                raise Unsupported("inlining depth exceeded (recursion?) at %s" % body['def'], e)
            return self.eval(body['root'], fr)
        except ReturnEx as r:
            return r.v
        finally:
            self.model.inline_depth -= 1

    def _call_path(self, cal, args, e, frame):
        path = cal.get('path')
        res = cal.get('resolved')
        name = strip_generics(res or path)
        tname = strip_generics(path)
        # 1. built-in semantics common to all models
        r = self._builtin(name, tname, cal, args, e, frame)
        if r is not NotImplemented:
            return r
        # 2. the rule's model
        r = self.model.call(name, cal, args, e, frame)
        if r is NotImplemented and name != tname:
            r = self.model.call(tname, cal, args, e, frame)
        if r is not NotImplemented:
            return r
        # 2b. a trait method called on a type parameter (`D::method(..)` inside `fn f<D: Trait>`): static dispatch through the type
        #     arguments the enclosing generic function was called with
        if cal.get('trait') and not res and cal.get('gargs'):
            selfty = cal['gargs'][0]
            conc = None
            for env in reversed(getattr(self, 'tyenv', [])):
                if selfty in env:
                    conc = env[selfty]
                    break
            if conc is not None:
                want = '<%s as %s>::%s' % (strip_generics(conc), strip_generics(cal['trait']), strip_generics(path).split('::')[-1])
                cands = [d for d, b in self.lib.bodies.items() if strip_generics(d) == want]
                if len(cands) == 1 and self.model.inline_ok(want):
                    return self.call_def(cands[0], args, e, gargs=None)
        # 3. crate-local function with a body: inline
        for cand in (res, path):
            if cand and cand in self.lib.bodies and self.model.inline_ok(strip_generics(cand)):
                return self.call_def(cand, args, e, gargs=cal.get('gargs'))
        if cal.get('crate') == self.crate:
            nb = self.lib.body(strip_generics(path))
            if nb is not None and self.model.inline_ok(strip_generics(path)):
                return self.call_def(nb['def'], args, e, gargs=cal.get('gargs'))
        if getattr(self.model, 'allow_opaque', True) and all(harmless(a) for a in args):
            self.opaque_calls.append((name, line_of(e) if e is not None else ''))
            return Opaque("result of `%s`" % name)
        raise Unsupported("call to `%s` is not modelled" % name, e)

    def _builtin(self, name, tname, cal, args, e, frame):
        m = self.model
        if tname in CMP:
            a, b = deref_all(args[0]), deref_all(args[1])
            return B(m.compare(CMP[tname], a, b, e))
        if tname in ARITH:
            a, b = deref_all(args[0]), deref_all(args[1])
            if isinstance(a, Num) and isinstance(b, Num):
                return num_binop(ARITH[tname], a, b, e)
            return NotImplemented
        if tname == 'std::ops::Neg::neg':
            a = deref_all(args[0])
            if isinstance(a, Num):
                return Num(-a.r)
            return NotImplemented
        if tname == 'num_traits::Pow::pow':
            a, b = deref_all(args[0]), deref_all(args[1])
            if isinstance(a, Num) and isinstance(b, Num) and b.const() is not None and b.const().denominator == 1:
                return Num(a.r ** int(b.const()))
            raise Unsupported("pow with a non-literal exponent", e)
        if tname == 'num_traits::cast':
            return NotImplemented
        if tname in ('num_traits::Zero::zero', 'num_traits::identities::Zero::zero', 'num_traits::zero', 'num_traits::identities::zero') and not args:
            return Num(0)
        if tname in ('num_traits::One::one', 'num_traits::identities::One::one', 'num_traits::one', 'num_traits::identities::one') and not args:
            return Num(1)
        if tname in ('num_traits::Float::mul_add', 'num_traits::MulAdd::mul_add', 'std::f64::<impl f64>::mul_add', 'std::f32::<impl f32>::mul_add') and len(args) == 3:
            a, b, c = (deref_all(x) for x in args)
            if all(isinstance(z, Num) for z in (a, b, c)):
                return Num(a.r * b.r + c.r)
        if tname in ('num_traits::Float::recip', 'num_traits::Inv::inv') and len(args) == 1 and isinstance(deref_all(args[0]), Num):
            return Num(Rat.const(1) / deref_all(args[0]).r)
        if tname in ('num_traits::Float::powi', 'num_traits::pow', 'num_traits::pow::pow') and len(args) == 2:
            a, b = deref_all(args[0]), deref_all(args[1])
            if isinstance(a, Num) and isinstance(b, Num) and b.const() is not None and b.const().denominator == 1:
                return Num(a.r ** int(b.const()))
        if tname in ('num_traits::NumCast::from', 'num_traits::FromPrimitive::from_f64', 'num_traits::FromPrimitive::from_usize',
                     'num_traits::FromPrimitive::from_u32', 'num_traits::FromPrimitive::from_i32') and len(args) == 1 and isinstance(deref_all(args[0]), Num):
            return SOME(deref_all(args[0]))
        if tname in ('std::clone::Clone::clone', 'std::borrow::ToOwned::to_owned') and not ((cal.get('resolved') or '') in self.lib.bodies):
            a = deref_all(args[0])
            if isinstance(a, (Num, B, Unit)):
                return a
            return NotImplemented
        if tname == 'std::hint::must_use' or tname == 'std::convert::identity':
            return args[0]
        if tname == 'std::convert::Into::into' and len(args) == 1 and isinstance(deref_all(args[0]), Enum) and e is not None:
            # `x.into()` with a generic source type: identity when source and target are the same type (std's blanket impl),
            # otherwise the crate's own `From<Source> for Target`
            v = deref_all(args[0])
            target = strip_generics(e.get('ty', '') or '')
            if target == v.adt:
                return v
            want = '<%s as std::convert::From>::from' % target
            cands = []
            for d, b in self.lib.bodies.items():
                if strip_generics(d) == want and b.get('params'):
                    p0 = b['params'][0]
                    ty = strip_generics(p0.get('ty', '') if isinstance(p0, dict) else str(p0))
                    if ty == v.adt:
                        cands.append(d)
            if len(cands) == 1:
                return self.call_def(cands[0], [v], e)
        if tname in ('std::ops::Fn::call', 'std::ops::FnMut::call_mut', 'std::ops::FnOnce::call_once') and len(args) == 2:
            packed = deref_all(args[1])
            if isinstance(packed, Tup):
                return self.apply(args[0], packed.items, e)
            if isinstance(packed, Unit):
                return self.apply(args[0], [], e)
        if tname in ('std::result::Result::is_ok', 'std::result::Result::is_err', 'std::option::Option::is_some', 'std::option::Option::is_none'):
            o = deref_all(args[0])
            if isinstance(o, Enum):
                want = {'is_ok': 'Ok', 'is_err': 'Err', 'is_some': 'Some', 'is_none': 'None'}[tname.split('::')[-1]]
                return B(o.variant == want)
        if (tname.startswith('std::option::Option::') or tname.startswith('std::result::Result::')) and args and isinstance(deref_all(args[0]), Opaque):
            return Opaque("%s of %s" % (tname.split('::')[-1], deref_all(args[0]).why))
        if tname in ('std::convert::Into::into', 'std::convert::From::from', 'std::string::ToString::to_string',
                     'std::borrow::ToOwned::to_owned') and isinstance(deref_all(args[0]), Obj) and deref_all(args[0]).kind in ('str', 'fmt'):
            return Obj('fmt')
        r = self._option_result(tname, args, e)
        if r is not NotImplemented:
            return r
        r = self._cseq_call(tname, args, e)
        if r is not NotImplemented:
            return r
        if tname in ('std::array::from_fn', 'core::array::from_fn') and len(args) == 1:
            mlen = re.search(r';\s*(\d+)\]\s*$', (e or {}).get('ty', '') or '')
            if mlen and int(mlen.group(1)) <= self.CSEQ_MAX:
                return Tup([self.apply(args[0], [Num(i)], e) for i in range(int(mlen.group(1)))])
        if tname in ('std::array::<impl [T; N]>::map', 'core::array::<impl [T; N]>::map') and isinstance(deref_all(args[0]), Tup):
            return Tup([self.apply(args[1], [x], e) for x in deref_all(args[0]).items])
        if tname == 'std::ops::RangeInclusive::new' and len(args) == 2:
            return Enum('std::ops::RangeInclusive', 'RangeInclusive', {'start': args[0], 'end': args[1]})
        if tname.split('::')[-1] == 'contains' and tname.startswith('std::ops::Range') and len(args) == 2:
            # RangeBounds::contains: start <= item (resp. <) first, then item <= end (resp. <), short-circuiting
            rg, item = deref_all(args[0]), deref_all(args[1])
            if isinstance(rg, Enum) and isinstance(item, Num):
                ok = True
                if 'start' in rg.fields:
                    ok = m.compare('le', deref_all(rg.fields['start']), item, e)
                if ok and 'end' in rg.fields:
                    ok = m.compare('le' if rg.adt.endswith('Inclusive') else 'lt', item, deref_all(rg.fields['end']), e)
                return B(ok)
        if tname == 'std::option::Option::map':
            o = deref_all(args[0])
            if isinstance(o, Enum) and o.variant == 'Some':
                return SOME(self.apply(args[1], [o.fields['0']], e))
            if isinstance(o, Enum) and o.variant == 'None':
                return o
            return NotImplemented
        if tname in ('std::option::Option::unwrap_or_else',):
            o = deref_all(args[0])
            if isinstance(o, Enum) and o.variant == 'Some':
                return o.fields['0']
            if isinstance(o, Enum) and o.variant == 'None':
                return self.apply(args[1], [], e)
            return NotImplemented
        if tname == 'std::option::Option::unwrap_or':
            o = deref_all(args[0])
            if isinstance(o, Enum) and o.variant == 'Some':
                return o.fields['0']
            if isinstance(o, Enum) and o.variant == 'None':
                return args[1]
            return NotImplemented
        if tname in ('std::option::Option::copied', 'std::option::Option::cloned'):
            o = deref_all(args[0])
            if isinstance(o, Enum) and o.variant == 'Some':
                return SOME(deref_all(o.fields['0']))
            if isinstance(o, Enum):
                return o
            return NotImplemented
        if tname == 'std::result::Result::map':
            o = deref_all(args[0])
            if isinstance(o, Enum) and o.variant == 'Ok':
                return OK(self.apply(args[1], [o.fields['0']], e))
            if isinstance(o, Enum) and o.variant == 'Err':
                return o
            return NotImplemented
        if tname == 'std::result::Result::map_or_else':
            o = deref_all(args[0])
            if isinstance(o, Enum) and o.variant == 'Ok':
                return self.apply(args[2], [o.fields['0']], e)
            if isinstance(o, Enum) and o.variant == 'Err':
                return self.apply(args[1], [o.fields['0']], e)
            return NotImplemented
        if tname == 'std::ops::Try::branch':
            o = deref_all(args[0])
            if isinstance(o, Enum) and o.adt == 'std::result::Result':
                if o.variant == 'Ok':
                    return Enum('std::ops::ControlFlow', 'Continue', {'0': o.fields['0']})
                return Enum('std::ops::ControlFlow', 'Break', {'0': o})
            if isinstance(o, Enum) and o.adt == 'std::option::Option':
                if o.variant == 'Some':
                    return Enum('std::ops::ControlFlow', 'Continue', {'0': o.fields['0']})
                return Enum('std::ops::ControlFlow', 'Break', {'0': o})
            if isinstance(o, Enum) and o.adt == 'std::ops::ControlFlow':
                if o.variant == 'Continue':
                    return Enum('std::ops::ControlFlow', 'Continue', {'0': o.fields['0']})
                return Enum('std::ops::ControlFlow', 'Break', {'0': o})
            return NotImplemented
        if tname == 'std::ops::FromResidual::from_residual':
            return deref_all(args[0])
        if tname in ('core::panicking::panic', 'core::panicking::panic_fmt', 'core::panicking::assert_failed',
                     'std::rt::begin_panic', 'core::panicking::panic_explicit', 'core::panicking::unreachable_display'):
            raise Diverge('panic', e)
        if tname.startswith('std::fmt::') or tname.startswith('core::fmt::'):
            return Obj('fmt')
        if tname == 'std::intrinsics::discriminant_value':
            a = deref_all(args[0])
            if isinstance(a, Enum):
                return Obj('discr', of=a)
            return NotImplemented
        return NotImplemented

    def _option_result(self, tname, args, e):
        """std's Option / Result / bool combinators on known variants (their documented semantics)"""
        if not args:
            return NotImplemented
        last = tname.split('::')[-1]
        if tname.startswith('std::bool::<impl bool>::') or tname.startswith('core::bool::<impl bool>::'):
            c = deref_all(args[0])
            if isinstance(c, B):
                if last == 'then':
                    return SOME(self.apply(args[1], [], e)) if c.b else NONE
                if last == 'then_some':
                    return SOME(args[1]) if c.b else NONE
            return NotImplemented
        isopt = tname.startswith('std::option::Option::')
        isres = tname.startswith('std::result::Result::')
        if not (isopt or isres):
            return NotImplemented
        o = deref_all(args[0])
        if not isinstance(o, Enum) or o.variant not in ('Some', 'None', 'Ok', 'Err'):
            return NotImplemented
        good = o.variant in ('Some', 'Ok')
        val = o.fields.get('0')
        wrap = SOME if isopt else OK
        if last in ('unwrap', 'expect'):
            if good:
                return val
            raise Diverge("%s on %s" % (last, o.variant), e)
        if last in ('unwrap_err', 'expect_err') and isres:
            if not good:
                return val
            raise Diverge("%s on Ok" % last, e)
        if last == 'and_then':
            return self.apply(args[1], [val], e) if good else o
        if last == 'or_else':
            return o if good else self.apply(args[1], [] if isopt else [val], e)
        if last == 'or':
            return o if good else args[1]
        if last == 'and':
            return args[1] if good else o
        if last == 'map_or':
            return self.apply(args[2], [val], e) if good else args[1]
        if last == 'map_or_else' and isopt:
            return self.apply(args[2], [val], e) if good else self.apply(args[1], [], e)
        if last == 'ok_or' and isopt:
            return OK(val) if good else ERR(args[1])
        if last == 'ok_or_else' and isopt:
            return OK(val) if good else ERR(self.apply(args[1], [], e))
        if last == 'ok' and isres:
            return SOME(val) if good else NONE
        if last == 'err' and isres:
            return NONE if good else SOME(val)
        if last == 'map_err' and isres:
            return o if good else ERR(self.apply(args[1], [val], e))
        if last == 'unwrap_or' and isres:
            return val if good else args[1]
        if last == 'unwrap_or_else' and isres:
            return val if good else self.apply(args[1], [val], e)
        if last in ('is_some_and', 'is_ok_and'):
            return self.apply(args[1], [val], e) if good else B(False)
        if last == 'is_none_or':
            return self.apply(args[1], [val], e) if good else B(True)
        if last == 'is_err_and':
            return B(False) if good else self.apply(args[1], [val], e)
        if last == 'filter' and isopt:
            if not good:
                return o
            keep = deref_all(self.apply(args[1], [Ref(ValPlace(val))], e))
            if isinstance(keep, B):
                return o if keep.b else NONE
            return NotImplemented
        if last in ('as_ref', 'as_mut', 'as_deref'):
            if good:
                return wrap(Ref(FieldPlace(ValPlace(o), '0')))
            return o
        if last in ('copied', 'cloned') and isres:
            return OK(deref_all(val)) if good else o
        if last == 'zip' and isopt:
            p = deref_all(args[1])
            if isinstance(p, Enum):
                return SOME(Tup([val, p.fields['0']])) if good and p.variant == 'Some' else NONE
        if last == 'xor' and isopt:
            p = deref_all(args[1])
            if isinstance(p, Enum):
                if good != (p.variant == 'Some'):
                    return o if good else p
                return NONE
        return NotImplemented

    # ------------------------------------------------------------ patterns
    def match_pat(self, pat, place, fr):
        k = pat['k']
        if k in ('Wild', 'Missing'):
            return True
        if k == 'Binding':
            mode = pat.get('mode', '')
            byref = 'Yes' in mode.split(',')[0]
            if byref:
                fr.bind(pat['var'], Ref(place, 'Mut' in mode.split(',')[0]))
            else:
                fr.bind(pat['var'], place.get())
                if mode.replace(' ', '').endswith(',Mut)'):
                    self.mut_vars.add(pat['var'])
            if pat.get('sub'):
                return self.match_pat(pat['sub'], place, fr)
            return True
        if k == 'Deref':
            v = place.get()
            if not isinstance(v, Ref):
                raise Unsupported("deref pattern on non-reference %r" % (v,))
            return self.match_pat(pat['sub'], v.place, fr)
        if k == 'Variant':
            v = deref_all(place.get())
            if not isinstance(v, Enum):
                raise Unsupported("variant pattern %s::%s against non-enum %r" % (pat['adt'], pat['variant'], v))
            if v.variant != pat['variant']:
                return False
            for fp in pat['fields']:
                if not self.match_pat(fp['pat'], FieldPlace(place, fp['name']), fr):
                    return False
            return True
        if k == 'Leaf':
            for fp in pat['fields']:
                if not self.match_pat(fp['pat'], FieldPlace(place, fp['name']), fr):
                    return False
            return True
        if k == 'Constant':
            v = deref_all(place.get())
            s = pat['v']
            if s in ('true', 'false'):
                if isinstance(v, B):
                    return v.b == (s == 'true')
                raise Unsupported("bool pattern against %r" % (v,))
            m = re.match(r'^(-?\d+)(_?[iu](8|16|32|64|128|size))?$', s)
            if m and isinstance(v, Num):
                return self.model.compare('eq', v, Num(int(m.group(1))), None)
            raise Unsupported("constant pattern %s against %r" % (s, v))
        if k == 'Slice':
            v = deref_all(place.get())
            pre, suf = pat.get('prefix', []), pat.get('suffix', [])
            if isinstance(v, Obj):
                rest = pat.get('slice')
                if rest is not None and rest.get('k') not in ('Wild', 'Missing'):
                    raise Unsupported("slice pattern with a bound rest part")
                places = self.model.slice_pattern(v, len(pre), len(suf), rest is not None)
                if places is NotImplemented:
                    raise Unsupported("slice pattern against %r" % (v,))
                if places is None:
                    return False
                return all(self.match_pat(p, pl, fr) for p, pl in zip(list(pre) + list(suf), places))
            if not isinstance(v, Tup):
                raise Unsupported("array pattern against %r" % (v,))
            n = len(v.items)
            if pat.get('slice') is None:
                if len(pre) + len(suf) != n:
                    return False
            elif len(pre) + len(suf) > n or pat['slice'].get('k') not in ('Wild', 'Missing'):
                raise Unsupported("array pattern with a bound rest part")
            for i, p in enumerate(pre):
                if not self.match_pat(p, FieldPlace(place, str(i)), fr):
                    return False
            for i, p in enumerate(suf):
                if not self.match_pat(p, FieldPlace(place, str(n - len(suf) + i)), fr):
                    return False
            return True
        if k == 'Or':
            for p in pat['pats']:
                if self.match_pat(p, place, fr):
                    return True
            return False
        raise Unsupported("pattern kind %s" % k)

    # ------------------------------------------------------------ places
    def eval_place(self, e, fr):
        k = e['k']
        if k in ('Var', 'Upvar'):
            return VarPlace(fr, e['var'])
        if k == 'Deref':
            v = self.eval(e['e'], fr)
            if isinstance(v, Ref):
                return v.place
            if isinstance(v, (Obj, Opaque)):
                return ValPlace(v)          # model objects are handles: a borrowed handle is the handle
            raise Unsupported("deref of non-reference %r" % (v,), e)
        if k == 'Field':
            base = self.eval_place(e['e'], fr)
            b = deref_all(base.get())
            if isinstance(b, Obj) and not ('fields' in b.d and e['name'] in b.d['fields']):
                r = self.model.field_of_opaque(b, e['name'], e)
                if r is not NotImplemented:
                    return ValPlace(r)
            return FieldPlace(base, e['name'])
        if k == 'Index':
            base = self.eval(e['e'], fr)
            idx = self.eval(e['i'], fr)
            r = self.model.call('builtin::index', {'path': 'builtin::index'}, [base, idx], e, fr)
            if r is NotImplemented:
                bt, it_ = deref_all(base), deref_all(idx)
                if isinstance(bt, Tup) and isinstance(it_, Num) and it_.const() is not None and it_.const().denominator == 1:
                    i = int(it_.const())
                    if 0 <= i < len(bt.items):
                        return FieldPlace(ValPlace(bt), str(i))
                    raise Diverge("index %d out of bounds of an array of length %d" % (i, len(bt.items)), e)
                raise Unsupported("built-in indexing of %r" % (base,), e)
            if isinstance(r, Place):
                return r
            return ValPlace(r)
        if k == 'Block' and not e.get('stmts') and e.get('expr') is not None:
            return self.eval_place(e['expr'], fr)
        return ValPlace(self.eval(e, fr))

    # ------------------------------------------------------------ expressions
    def eval(self, e, fr):
        self.steps += 1
        if self.steps > 400000:
            raise Unsupported("evaluation budget exceeded", e)
        k = e['k']
        if k in ('Var', 'Upvar'):
            return fr.lookup(e['var'])
        if k == 'Lit':
            lt, v = e['lt'], e['v']
            if lt == 'int':
                n = Num(int(v))
                return Num(-n.r) if e.get('neg') else n
            if lt == 'float':
                n = Num(Fraction(v))
                return Num(-n.r) if e.get('neg') else n
            if lt == 'bool':
                return B(v == 'true')
            return Ref(ValPlace(Obj('str', v=v)))
        if k == 'Borrow':
            return Ref(self.eval_place(e['e'], fr), mut='Mut' in e.get('bk', ''))
        if k == 'Deref':
            return self.eval_place(e, fr).get()
        if k in ('NeverToAny', 'PointerCoercion', 'ByUse'):
            return self.eval(e['e'], fr)
        if k == 'Cast':
            v = self.eval(e['e'], fr)
            if isinstance(deref_all(v), B) and e.get('ty') not in ('bool',):
                return Num(1 if deref_all(v).b else 0)      # `flag as usize`
            return v
        if k == 'Field':
            return self.eval_place(e, fr).get()
        if k == 'Index':
            return self.eval_place(e, fr).get()
        if k == 'Block':
            return self._block(e, fr)
        if k == 'If':
            try:
                c = self.eval(e['cond'], fr)
            except Unsupported as u:
                # an assertion whose condition the scenario table cannot decide: numeric rules (which make no claim about
                # panics) assume it passes and record that; rules about rejection / panic freedom stay strict
                ex = e.get('expn') or []
                if getattr(self.model, 'assume_asserts', False) and any('assert' in str(m) for m in ex) and e.get('else') is None:
                    self.assumed_asserts.append((line_of(e), str(u.why)[:120]))
                    return Unit()
                raise
            if not isinstance(c, B):
                raise Unsupported("branch condition is not decided: %r" % (c,), e['cond'])
            bl = getattr(self.model, 'branch_log', None)
            if bl is not None:
                bl.add((e.get('sp'), c.b))
            if c.b:
                return self.eval(e['then'], fr)
            if e.get('else') is not None:
                return self.eval(e['else'], fr)
            return Unit()
        if k == 'Logical':
            l = self.eval(e['l'], fr)
            if not isinstance(l, B):
                raise Unsupported("operand of &&/|| not decided: %r" % (l,), e['l'])
            if e['op'] == 'And':
                if not l.b:
                    return B(False)
            else:
                if l.b:
                    return B(True)
            r = self.eval(e['r'], fr)
            if not isinstance(r, B):
                raise Unsupported("operand of &&/|| not decided: %r" % (r,), e['r'])
            return r
        if k == 'Unary':
            v = deref_all(self.eval(e['e'], fr))
            if e['op'] == 'Not':
                if isinstance(v, B):
                    return B(not v.b)
                raise Unsupported("`!` on %r" % (v,), e)
            if e['op'] == 'Neg' and isinstance(v, Num):
                return Num(-v.r)
            raise Unsupported("unary %s on %r" % (e['op'], v), e)
        if k == 'Binary':
            a = deref_all(self.eval(e['l'], fr))
            b = deref_all(self.eval(e['r'], fr))
            op = e['op']
            if op in ('Add', 'Sub', 'Mul', 'Div', 'AddWithOverflow', 'SubWithOverflow'):
                return num_binop({'Add': '+', 'Sub': '-', 'Mul': '*', 'Div': '/'}[op[:3]], a, b, e)
            if op in ('Lt', 'Le', 'Gt', 'Ge', 'Eq', 'Ne'):
                if isinstance(a, Obj) and a.kind == 'discr' and isinstance(b, Obj) and b.kind == 'discr':
                    same = a.d['of'].variant == b.d['of'].variant
                    return B(same if op == 'Eq' else not same)
                return B(self.model.compare(op.lower(), a, b, e))
            raise Unsupported("binary operator %s" % op, e)
        if k == 'Tuple':
            return Tup([self.eval(x, fr) for x in e['elems']])
        if k == 'Array':
            return Tup([self.eval(x, fr) for x in e['elems']])
        if k == 'Adt':
            fields = {f['name']: self.eval(f['e'], fr) for f in e['fields']}
            if e.get('base') and e['base'] != 'default':
                b = deref_all(self.eval(e['base'], fr))
                if isinstance(b, Enum):
                    for n_, v_ in b.fields.items():
                        fields.setdefault(n_, v_)
            return Enum(e['adt'], e['variant'], fields)
        if k == 'Closure':
            return Clo(e['def'], fr)
        if k == 'Zst':
            fn = e.get('fn')
            if fn and fn.get('path'):
                return Obj('fnitem', cal=fn)
            return Unit()
        if k == 'NamedConst':
            r = self.model.named_const(e['def'], e)
            if r is not NotImplemented:
                return r
            b = self.lib.bodies.get(e['def'])
            if b is not None and b.get('root') is not None:
                return self.eval(b['root'], Frame())
            raise Unsupported("named constant %s" % e['def'], e)
        if k == 'Call':
            return self._call(e, fr)
        if k == 'Match':
            return self._match(e, fr)
        if k == 'LetExpr':
            p = self.eval_place(e['e'], fr)
            return B(self.match_pat(e['pat'], p, fr))
        if k == 'Assign':
            v = self.eval(e['r'], fr)
            self.eval_place(e['l'], fr).set(v)
            return Unit()
        if k == 'AssignOp':
            pl = self.eval_place(e['l'], fr)
            cur = deref_all(pl.get())
            rhs = deref_all(self.eval(e['r'], fr))
            op = e['op']
            sym = {'AddAssign': '+', 'SubAssign': '-', 'MulAssign': '*', 'DivAssign': '/'}.get(op)
            if sym is None:
                raise Unsupported("compound assignment %s" % op, e)
            pl.set(num_binop(sym, cur, rhs, e))
            return Unit()
        if k == 'Return':
            raise ReturnEx(self.eval(e['e'], fr) if e.get('e') is not None else Unit())
        if k == 'Break':
            raise BreakEx(self.eval(e['e'], fr) if e.get('e') is not None else Unit())
        if k == 'Continue':
            raise ContinueEx()
        if k == 'Loop':
            return self.model.plain_loop(e['body'], fr, e)
        if k == 'Repeat':
            return Obj('repeat', v=self.eval(e['e'], fr), count=e.get('count'))
        raise Unsupported("expression kind %s" % k, e)

    def _block(self, e, fr):
        for st in e.get('stmts', []):
            if st['k'] == 'Expr':
                self.eval(st['e'], fr)
            else:
                if st.get('init') is None:
                    # declared, assigned later
                    for v in _pat_vars(st['pat']):
                        fr.bind(v, Obj('uninit'))
                    continue
                pl = self.eval_place(st['init'], fr)
                if not self.match_pat(st['pat'], pl, fr):
                    if st.get('has_else') and st.get('else') is not None:
                        self.eval(st['else'], Frame(fr))          # diverges (return / break / panic)
                        raise Unsupported("the else block of a let-else did not diverge", st['init'])
                    if st.get('has_else'):
                        raise Unsupported("let-else taken", st['init'])
                    raise Unsupported("irrefutable let pattern did not match %r" % (pl.get(),), st['init'])
        if e.get('expr') is not None:
            return self.eval(e['expr'], fr)
        return Unit()

    def _call(self, e, fr):
        cal = e.get('callee')
        if cal and cal.get('path'):
            tn = strip_generics(cal['path'])
            if tn.startswith('std::fmt::') or tn.startswith('core::fmt::') or tn == 'alloc::fmt::format':
                return Obj('fmt')      # formatting of messages: arguments are not evaluated
            if tn.startswith('core::panicking::') or tn.startswith('std::rt::begin_panic'):
                raise Diverge('panic', e)
        args = [self.eval(a, fr) for a in e['args']]
        if not cal:
            f = self.eval(e['fun'], fr)
            return self.apply(f, args, e)
        if cal.get('closure'):
            # direct call of a closure value: first arg is the closure
            return self.apply(args[0], args[1:], e)
        return self._call_path(cal, args, e, fr)

    def _match(self, e, fr):
        src = e.get('src', '')
        if src.startswith('ForLoopDesugar'):
            return self._for(e, fr)
        pl = self.eval_place(e['scrut'], fr)
        for arm in e['arms']:
            if self.match_pat(arm['pat'], pl, fr):
                if arm.get('guard') is not None:
                    g = self.eval(arm['guard'], fr)
                    if not isinstance(g, B):
                        raise Unsupported("match guard not decided", arm['guard'])
                    if not g.b:
                        continue
                return self.eval(arm['body'], fr)
        raise Unsupported("no match arm applies to %r" % (pl.get(),), e)

    def _for(self, e, fr):
        # match IntoIterator::into_iter(<iterable>) { mut iter => loop { match next(&mut iter) { None => break, Some(<pat>) => <body> } } }
        scrut = e['scrut']
        it_expr = scrut['args'][0] if scrut.get('k') == 'Call' else scrut
        iterable = self.eval(it_expr, fr)
        try:
            loop = e['arms'][0]['body']
            while loop['k'] != 'Loop':
                loop = loop.get('expr') or loop.get('e') or (loop['stmts'][0]['e'] if loop.get('stmts') else None)
            inner = loop['body']
            while inner['k'] != 'Match':
                inner = inner.get('expr') or (inner['stmts'][0]['e'] if inner.get('stmts') else None)
            some_arm = [a for a in inner['arms'] if a['pat']['k'] == 'Variant' and a['pat']['variant'] == 'Some'][0]
            pat = some_arm['pat']['fields'][0]['pat']
            body = some_arm['body']
        except Exception:
            raise Unsupported("unrecognised `for` desugaring", e)
        seq = self._as_cseq(iterable, by_value=True, ranges=False)
        if seq is None and self._as_cseq(iterable, by_value=True) is not None:
            # a literal range: the model's loop summary first (one inductive step), the concrete iteration only if it has none
            try:
                return self.model.for_loop(iterable, pat, body, fr, e)
            except Unsupported:
                seq = self._as_cseq(iterable, by_value=True)
        if seq is not None:
            # a sequence of concretely known length (array literal, table of closures, literal range): iterate it as written
            while True:
                item = self._cseq_pull(seq, e)
                if item is None:
                    return Unit()
                lf = Frame(fr)
                if not self.match_pat(pat, ValPlace(item), lf):
                    raise Unsupported("loop pattern over a concrete sequence", e)
                try:
                    self.eval(body, lf)
                except ContinueEx:
                    continue
                except BreakEx:
                    return Unit()
        return self.model.for_loop(iterable, pat, body, fr, e)

    # ------------------------------------------------------------ concrete sequences
    CSEQ_MAX = 64

    def _as_cseq(self, v, by_value=False, ranges=True):
        """view `v` as a sequence of concretely known length, or None"""
        d = deref_all(v)
        if isinstance(d, Obj) and d.kind == 'cseq':
            return d
        if isinstance(d, Tup) and len(d.items) <= self.CSEQ_MAX:
            if by_value and not isinstance(v, Ref):
                return Obj('cseq', src=list(d.items), ops=[], pos=0)
            return Obj('cseq', src=[Ref(FieldPlace(ValPlace(d), str(i))) for i in range(len(d.items))], ops=[], pos=0)
        if ranges and isinstance(d, Enum) and d.adt in ('std::ops::Range', 'std::ops::RangeInclusive'):
            s_, e_ = deref_all(d.fields.get('start')), deref_all(d.fields.get('end'))
            if isinstance(s_, Num) and isinstance(e_, Num) and s_.const() is not None and e_.const() is not None and \
                    s_.const().denominator == 1 and e_.const().denominator == 1:
                lo, hi = int(s_.const()), int(e_.const()) + (1 if d.adt.endswith('Inclusive') else 0)
                if hi - lo <= self.CSEQ_MAX:
                    return Obj('cseq', src=[Num(i) for i in range(lo, max(lo, hi))], ops=[], pos=0)
        return None

    def _cseq_pull(self, seq, e):
        """next element (adaptors applied lazily, per element, in the order written) or None at the end"""
        d = seq.d
        while d['pos'] < len(d['src']):
            item = d['src'][d['pos']]
            d['pos'] += 1
            keep = True
            for op in d['ops']:
                kind = op[0]
                if kind == 'map':
                    item = self.apply(op[1], [item], e)
                elif kind == 'filter':
                    r = deref_all(self.apply(op[1], [Ref(ValPlace(item))], e))
                    if not isinstance(r, B):
                        raise Unsupported("filter predicate is not decided: %r" % (r,), e)
                    if not r.b:
                        keep = False
                        break
                elif kind == 'filter_map':
                    r = deref_all(self.apply(op[1], [item], e))
                    if not (isinstance(r, Enum) and r.adt == 'std::option::Option'):
                        raise Unsupported("filter_map closure result is not decided: %r" % (r,), e)
                    if r.variant == 'None':
                        keep = False
                        break
                    item = r.fields['0']
                elif kind == 'enumerate':
                    item = Tup([Num(op[1]['n']), item])
                    op[1]['n'] += 1
                elif kind in ('copied', 'cloned'):
                    item = deref_all(item)
                elif kind == 'skip':
                    if op[1]['n'] > 0:
                        op[1]['n'] -= 1
                        keep = False
                        break
                elif kind == 'take':
                    if op[1]['n'] <= 0:
                        d['pos'] = len(d['src'])
                        return None
                    op[1]['n'] -= 1
                elif kind == 'zip':
                    other = self._cseq_pull(op[1], e)
                    if other is None:
                        d['pos'] = len(d['src'])
                        return None
                    item = Tup([item, other])
                elif kind == 'inspect':
                    self.apply(op[1], [Ref(ValPlace(item))], e)
            if keep:
                return item
        return None

    def _cseq_call(self, tname, args, e):
        """std's Iterator adaptors and consumers on sequences of concretely known length"""
        if not args:
            return NotImplemented
        last = tname.split('::')[-1]
        if tname in ('core::slice::<impl [T]>::iter', 'core::slice::<impl [T]>::iter_mut', 'core::array::<impl [T; N]>::iter',
                     'std::iter::IntoIterator::into_iter') or (tname.endswith('::into_iter') and 'IntoIterator' in tname):
            d = deref_all(args[0])
            if isinstance(d, (Tup,)) or (isinstance(d, Obj) and d.kind == 'cseq'):
                # ranges stay what they are until an adaptor or consumer asks for their elements (models summarise symbolic loops over them)
                return self._as_cseq(args[0], by_value=last == 'into_iter', ranges=False) or NotImplemented
            return NotImplemented
        if not tname.startswith('std::iter::Iterator::') and not tname.startswith('std::iter::DoubleEndedIterator::'):
            return NotImplemented
        a0 = deref_all(args[0])
        if not (isinstance(a0, Obj) and a0.kind == 'cseq') and not (isinstance(a0, Enum) and a0.adt in ('std::ops::Range', 'std::ops::RangeInclusive')):
            return NotImplemented
        if isinstance(a0, Enum) and getattr(self.model, 'summarises_range_loops', False) and last in ('for_each', 'fold', 'try_for_each', 'rev'):
            return NotImplemented         # the model has a one-step summary for loops over index ranges, literal bounds or not
        seq = self._as_cseq(args[0])
        if seq is None:
            return NotImplemented
        d = seq.d

        def adapted(op):
            return Obj('cseq', src=d['src'], ops=d['ops'] + [op], pos=d['pos'])
        if last in ('map', 'filter', 'filter_map', 'inspect'):
            return adapted((last, args[1]))
        if last in ('copied', 'cloned'):
            return adapted((last,))
        if last == 'enumerate':
            return adapted(('enumerate', {'n': 0}))
        if last in ('skip', 'take'):
            n = deref_all(args[1])
            if isinstance(n, Num) and n.const() is not None:
                return adapted((last, {'n': int(n.const())}))
            return NotImplemented
        if last == 'rev':
            if d['ops'] or d['pos']:
                return NotImplemented
            return Obj('cseq', src=list(reversed(d['src'])), ops=[], pos=0)
        if last == 'zip':
            other = self._as_cseq(args[1], by_value=True)
            if other is None:
                return NotImplemented
            return adapted(('zip', other))
        if last == 'chain':
            other = self._as_cseq(args[1], by_value=True)
            if other is None or d['ops'] or other.d['ops']:
                return NotImplemented
            return Obj('cseq', src=d['src'][d['pos']:] + other.d['src'][other.d['pos']:], ops=[], pos=0)
        # ---- consumers
        if last == 'next':
            item = self._cseq_pull(seq, e)
            return SOME(item) if item is not None else NONE
        if last in ('find_map', 'find', 'any', 'all', 'position'):
            i = 0
            while True:
                item = self._cseq_pull(seq, e)
                if item is None:
                    return {'find_map': NONE, 'find': NONE, 'any': B(False), 'all': B(True), 'position': NONE}[last]
                r = deref_all(self.apply(args[1], [Ref(ValPlace(item))] if last == 'find' else [item], e))
                if last == 'find_map':
                    if not (isinstance(r, Enum) and r.adt == 'std::option::Option'):
                        raise Unsupported("find_map closure result is not decided: %r" % (r,), e)
                    if r.variant == 'Some':
                        return r
                else:
                    if not isinstance(r, B):
                        raise Unsupported("%s predicate is not decided: %r" % (last, r), e)
                    if last == 'find' and r.b:
                        return SOME(item)
                    if last == 'any' and r.b:
                        return B(True)
                    if last == 'all' and not r.b:
                        return B(False)
                    if last == 'position' and r.b:
                        return SOME(Num(i))
                i += 1
        if last in ('for_each', 'try_for_each'):
            while True:
                item = self._cseq_pull(seq, e)
                if item is None:
                    return Unit() if last == 'for_each' else OK(Unit())
                r = deref_all(self.apply(args[1], [item], e))
                if last == 'try_for_each':
                    if isinstance(r, Enum) and r.variant in ('Err', 'None', 'Break'):
                        return r
                    if not (isinstance(r, Enum) and r.variant in ('Ok', 'Some', 'Continue')):
                        raise Unsupported("try_for_each closure result is not decided: %r" % (r,), e)
        if last in ('fold', 'try_fold'):
            acc = args[1]
            while True:
                item = self._cseq_pull(seq, e)
                if item is None:
                    return acc if last == 'fold' else self._try_wrap_like(getattr(self, '_last_try', None), acc)
                r = self.apply(args[2], [acc, item], e)
                if last == 'fold':
                    acc = r
                else:
                    r = deref_all(r)
                    if isinstance(r, Enum) and r.variant in ('Err', 'None', 'Break'):
                        return r
                    if not (isinstance(r, Enum) and r.variant in ('Ok', 'Some', 'Continue')):
                        raise Unsupported("try_fold closure result is not decided: %r" % (r,), e)
                    self._last_try = r
                    acc = r.fields['0']
        if last == 'count':
            n = 0
            while self._cseq_pull(seq, e) is not None:
                n += 1
            return Num(n)
        if last == 'last':
            cur = None
            while True:
                item = self._cseq_pull(seq, e)
                if item is None:
                    return SOME(cur) if cur is not None else NONE
                cur = item
        if last == 'collect':
            items = []
            while True:
                item = self._cseq_pull(seq, e)
                if item is None:
                    return Tup(items)
                items.append(item)
        return NotImplemented

    @staticmethod
    def _try_wrap_like(sample, acc):
        if isinstance(sample, Enum) and sample.adt == 'std::option::Option':
            return SOME(acc)
        if isinstance(sample, Enum) and sample.adt == 'std::ops::ControlFlow':
            return Enum('std::ops::ControlFlow', 'Continue', {'0': acc})
        return OK(acc)


def _pat_vars(pat):
    if pat['k'] == 'Binding':
        yield pat['var']
    for key in ('sub',):
        if pat.get(key):
            yield from _pat_vars(pat[key])
    for f in pat.get('fields', []):
        yield from _pat_vars(f['pat'])
    for p in pat.get('pats', []):
        yield from _pat_vars(p)
