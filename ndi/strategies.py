"""Strategy values as a user obtains them: through the public constructors, setters and `build`.

No private field, private enum or private variant name is written down in the checks: the finished strategy handed to
a kernel is whatever `<S as Interp*StrategyBuilder>::build` returns for the configured builder (with the coefficient
routine answering two placeholder arrays), and what a strategy *is* (rejecting / extrapolating / wrapping) is read off
its behaviour in the guard table, not off the name of a variant."""
from .absint import *
from .kmodel import KModel
from .poly import Rat

CS = 'CubicSpline'
BC = 'BoundaryCondition'
BUILD_SPL = '<CubicSpline as Interp1DStrategyBuilder>::build'
BUILD_LIN = '<Linear as Interp1DStrategyBuilder>::build'
BUILD_BIL = '<Bilinear as Interp2DStrategyBuilder>::build'
SPLINE_MODES = {'No': (False, 'NotAKnot'), 'Yes': (True, 'NotAKnot'), 'Periodic': (True, 'Periodic')}


class BuildModel(KModel):
    """the coefficient routine answers two placeholder arrays (its content is C02/C03's subject)"""
    def call(self, name, cal, args, e, frame):
        if self.interp.lib.is_role(name, 'CubicSpline::calc_coefficients'):
            return OK(coefficient_pair(self.interp.lib, [Obj('data', name='a', lead=1, idx=[]), Obj('data', name='b', lead=1, idx=[])]))
        return super().call(name, cal, args, e, frame)


def coefficient_pair(lib, arrays):
    """the two coefficient arrays in the aggregate the coefficient routine returns: a tuple, or a private struct whose (array-typed)
    fields take them in declaration order"""
    from .thir import strip_generics
    b = lib.body('CubicSpline::calc_coefficients')
    sig = (b or {}).get('sig') or ''
    import re
    m = re.search(r'->\s*(?:std::result::)?Result<\s*([A-Za-z_][\w:]*)\s*<', sig)
    if m:
        adt = strip_generics(m.group(1))
        for a in lib.f.get('adts', []):
            if a['path'] == adt and a.get('kind') == 'Struct' and a.get('variants'):
                fs = [f_['name'] for f_ in a['variants'][0]['fields'] if 'ndarray::ArrayBase<' in f_['ty']]
                if len(fs) == len(arrays):
                    return Enum(adt, a['variants'][0]['name'], dict(zip(fs, arrays)))
    return Tup(list(arrays))


def aggregate_arrays(lib, v):
    """the array-valued components of a tuple / struct value, in order"""
    v = deref_all(v)
    if isinstance(v, Tup):
        return list(v.items)
    if isinstance(v, Enum):
        for a in lib.f.get('adts', []):
            if a['path'] == v.adt and a.get('variants'):
                return [v.fields[f_['name']] for f_ in a['variants'][0]['fields'] if f_['name'] in v.fields]
        return [v.fields[k] for k in sorted(v.fields)]
    return None


def _need(lib, *paths):
    for p in paths:
        if lib.body(p) is None:
            raise Unsupported("public item `%s` not found" % p)


def spline_builder(lib, flag, bc, order='eb', bc_fields=None):
    """CubicSpline::new() followed by the public setters in the given order (e: extrapolate, b: boundary, E: toggled)"""
    NEW, SETE, SETB = CS + '::new', CS + '::extrapolate', CS + '::boundary'
    _need(lib, NEW, SETE, SETB)
    it = Interp(lib, BuildModel())
    s = deref_all(it.call_norm(NEW, []))
    fields = dict(bc_fields or ({'0': Obj('bounds')} if bc == 'Individual' else {}))
    for step in order:
        if step == 'e':
            s = deref_all(it.call_norm(SETE, [s, B(flag)]))
        elif step == 'E':       # toggled: the opposite value first, then the wanted one
            s = deref_all(it.call_norm(SETE, [s, B(not flag)]))
            s = deref_all(it.call_norm(SETE, [s, B(flag)]))
        else:
            s = deref_all(it.call_norm(SETB, [s, Enum(BC, bc, fields)]))
    return s


def spline_finished(lib, builder):
    _need(lib, BUILD_SPL)
    b = lib.body(BUILD_SPL)
    out = deref_all(Interp(lib, BuildModel()).call_def(b['def'], [builder, Ref(ValPlace(Obj('axis', name='x'))),
                                                                    Ref(ValPlace(Obj('data', name='y', lead=1, idx=[])))]))
    if isinstance(out, Enum) and out.adt == 'std::result::Result' and out.variant == 'Ok':
        return deref_all(out.fields['0'])
    raise Unsupported("CubicSpline::build did not return Ok for a valid configuration: %r" % (out,))


def spline_by_mode(lib, mode):
    cache = lib.__dict__.setdefault('_strategy_cache', {})
    if ('S', mode) not in cache:
        flag, bc = SPLINE_MODES[mode]
        cache[('S', mode)] = spline_finished(lib, spline_builder(lib, flag, bc))
    import copy
    return copy.deepcopy(cache[('S', mode)])


def _simple(lib, ty, build, ext, args):
    NEW, SETE = ty + '::new', ty + '::extrapolate'
    _need(lib, NEW, SETE, build)
    it = Interp(lib, KModel())
    s = deref_all(it.call_norm(NEW, []))
    s = deref_all(it.call_norm(SETE, [s, B(ext)]))
    out = deref_all(it.call_norm(build, [s] + args))
    if isinstance(out, Enum) and out.adt == 'std::result::Result' and out.variant == 'Ok':
        return deref_all(out.fields['0'])
    raise Unsupported("%s::build did not return Ok: %r" % (ty, out))


def linear(lib, ext):
    return _simple(lib, 'Linear', BUILD_LIN, ext, [Ref(ValPlace(Obj('axis', name='x'))), Ref(ValPlace(Obj('data', name='y', lead=1, idx=[])))])


def bilinear(lib, ext):
    return _simple(lib, 'Bilinear', BUILD_BIL, ext, [Ref(ValPlace(Obj('axis', name='x'))), Ref(ValPlace(Obj('axis', name='y'))),
                                                     Ref(ValPlace(Obj('data', name='z', lead=2, idx=[])))])


def default_of(lib, ty):
    """`ty::new()` (and `Default::default()` when implemented) taken through build: the strategy a user gets without any setter"""
    res = []
    for ctor in (ty + '::new', '<%s as std::default::Default>::default' % ty):
        if lib.body(ctor) is None:
            continue
        it = Interp(lib, BuildModel())
        s = deref_all(it.call_norm(ctor, []))
        if ty == CS:
            st = spline_finished(lib, s)
        else:
            build = BUILD_LIN if ty == 'Linear' else BUILD_BIL
            args = [Ref(ValPlace(Obj('axis', name='x')))] + ([Ref(ValPlace(Obj('axis', name='y')))] if ty == 'Bilinear' else []) + \
                   [Ref(ValPlace(Obj('data', name='y' if ty != 'Bilinear' else 'z', lead=1 if ty != 'Bilinear' else 2, idx=[])))]
            out = deref_all(it.call_norm(build, [s] + args))
            if not (isinstance(out, Enum) and out.variant == 'Ok'):
                raise Unsupported("%s::build did not return Ok: %r" % (ty, out))
            st = deref_all(out.fields['0'])
        res.append((ctor, st))
    return res
