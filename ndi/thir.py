"""Helpers over the typed-expression-tree (THIR) and MIR facts."""
import re


def strip_generics(s):
    """`a::B::<T, U>::f` -> `a::B::f`; `<X<T> as Tr<U>>::f` -> `<X as Tr>::f`;
    `m::<impl A<S, D>>::f` -> `m::<impl A>::f`."""
    out = []
    i = 0
    n = len(s)
    while i < n:
        c = s[i]
        if c == '<':
            # find the matching '>'
            depth = 0
            j = i
            while j < n:
                if s[j] == '<':
                    depth += 1
                elif s[j] == '>' and (j == 0 or s[j - 1] != '-'):
                    depth -= 1
                    if depth == 0:
                        break
                j += 1
            inner = s[i + 1:j]
            prev = s[i - 1] if i > 0 else ''
            qualified = (inner.startswith('impl ') or _has_top_level_as(inner))
            if (prev == '' or prev == ':' or prev in ' (&,') and qualified:
                out.append('<' + strip_generics(inner) + '>')
            else:
                # turbofish or type arguments: drop (and a preceding '::')
                if len(out) >= 2 and out[-1] == ':' and out[-2] == ':':
                    out.pop()
                    out.pop()
            i = j + 1
            continue
        out.append(c)
        i += 1
    return ''.join(out)


def _has_top_level_as(inner):
    depth = 0
    i = 0
    while i < len(inner):
        c = inner[i]
        if c == '<':
            depth += 1
        elif c == '>' and inner[i - 1] != '-':
            depth -= 1
        elif depth == 0 and inner.startswith(' as ', i):
            return True
        i += 1
    return False


def children(e):
    """Direct sub-expressions / sub-structures of a THIR node (dicts with 'k')."""
    if isinstance(e, dict):
        for k, v in e.items():
            if k in ('ty', 'sp', 'expn', 'callee'):
                continue
            if isinstance(v, (dict, list)):
                yield v
    elif isinstance(e, list):
        for v in e:
            if isinstance(v, (dict, list)):
                yield v


def walk(e):
    """All expression nodes (dicts with 'k' and 'ty') below e, pre-order."""
    stack = [e]
    while stack:
        x = stack.pop()
        if isinstance(x, dict):
            if 'k' in x and 'sp' in x and 'ty' in x:
                yield x
            kids = list(children(x))
            stack.extend(reversed(kids))
        elif isinstance(x, list):
            stack.extend(reversed(x))


TRANSPARENT = ('Borrow', 'Deref', 'NeverToAny', 'PointerCoercion', 'ByUse')


def peel(e):
    """Strip reference plumbing and trivial blocks."""
    while isinstance(e, dict):
        k = e.get('k')
        if k in TRANSPARENT:
            e = e['e']
        elif k == 'Block' and not e.get('stmts') and e.get('expr') is not None and not e.get('unsafe'):
            e = e['expr']
        else:
            break
    return e


def cpath(e):
    if isinstance(e, dict) and e.get('k') == 'Call' and e.get('callee'):
        return e['callee'].get('path')
    return None


def cname(e):
    p = cpath(e)
    if p is None:
        return None
    return strip_generics(p).split('::')[-1]


def ccrate(e):
    if isinstance(e, dict) and e.get('k') == 'Call' and e.get('callee'):
        return e['callee'].get('crate')
    return None


def is_call(e, name, crate=None):
    """call to a function whose generic-stripped path equals or ends with `name`."""
    p = cpath(e)
    if p is None:
        return False
    sp = strip_generics(p)
    if not (sp == name or sp.endswith('::' + name)):
        r = e['callee'].get('resolved')
        if not r:
            return False
        sr = strip_generics(r)
        if not (sr == name or sr.endswith('::' + name)):
            return False
    if crate is not None and ccrate(e) != crate:
        return False
    return True


def calls(e):
    for x in walk(e):
        if x.get('k') == 'Call' and x.get('callee'):
            yield x


def line_of(e):
    sp = e.get('sp', '') if isinstance(e, dict) else ''
    m = re.match(r'(.*?):(\d+):(\d+)-', sp)
    if m:
        return "%s:%s" % (m.group(1), m.group(2))
    return sp


def in_macro(e, name):
    ex = e.get('expn') if isinstance(e, dict) else None
    return bool(ex) and any(name == str(x) or str(x).endswith('::' + name) for x in ex)


class Lib:
    """Indexed view of the library facts."""

    def __init__(self, facts):
        self.f = facts
        self.bodies = {}
        for b in facts['bodies']:
            self.bodies[b['def']] = b
        self.by_norm = {}
        for d, b in self.bodies.items():
            self.by_norm.setdefault(strip_generics(d), []).append(b)
        self.aliases = {}        # role name used by the checks -> def path in this tree (see ndi/roles.py)
        self.mir = {m['def']: m for m in facts['mir']}
        self.mir_by_norm = {}
        for d, m in self.mir.items():
            self.mir_by_norm.setdefault(strip_generics(d), []).append(m)

    def body(self, norm_path):
        """Unique body whose generic-stripped def path equals norm_path; None if absent/ambiguous."""
        bs = self.by_norm.get(self.aliases.get(norm_path, norm_path), [])
        if len(bs) == 1:
            return bs[0]
        return None

    def is_role(self, name, role):
        """does the (generic-stripped) callee name denote the function playing `role`"""
        return name == self.aliases.get(role, role)

    def bodies_matching(self, pred):
        return [b for d, b in self.bodies.items() if pred(strip_generics(d), b)]

    def closures_of(self, body):
        d = body['def']
        return [b for dd, b in self.bodies.items() if dd.startswith(d + '::{closure')]

    def closure(self, def_path):
        return self.bodies.get(def_path)

    def is_derive(self, b):
        ex = b.get('expn')
        return bool(ex) and any('derive' in str(x) or 'thiserror' in str(x) or
                                str(x) in ('Debug', 'Clone', 'PartialEq', 'Eq', 'Error') or
                                'Debug' == str(x).split('::')[-1] for x in ex)

    def with_closures(self, body):
        """body plus (transitively) all closures defined inside it."""
        d = body['def']
        return [b for dd, b in self.bodies.items() if dd == d or dd.startswith(d + '::{')]

    def all_exprs(self, body):
        for b in self.with_closures(body):
            for x in walk(b.get('root')):
                yield b, x

    def local_callees(self, body):
        """normalised def paths of crate-local functions called from body (incl. closures)."""
        res = []
        for b, x in self.all_exprs(body):
            if x.get('k') == 'Call' and x.get('callee') and x['callee'].get('crate') == self.f['crate']:
                res.append((strip_generics(x['callee']['path']), x))
        return res


def walk_anc(e, anc=()):
    """(node, ancestors) for all expression nodes; ancestors are (parent_node, slot) pairs,
    slot = key under which the child hangs in the parent ('then', 'else', 'cond', 'args', ...)."""
    if isinstance(e, dict) and 'k' in e and 'sp' in e and 'ty' in e:
        yield e, anc
        for k, v in e.items():
            if k in ('ty', 'sp', 'expn', 'callee'):
                continue
            if isinstance(v, (dict, list)):
                yield from _walk_slot(v, anc + ((e, k),))
    elif isinstance(e, (dict, list)):
        yield from _walk_slot(e, anc)


def _walk_slot(v, anc):
    if isinstance(v, dict):
        if 'k' in v and 'sp' in v and 'ty' in v:
            yield from walk_anc(v, anc)
        else:
            for k2, v2 in v.items():
                if isinstance(v2, (dict, list)):
                    yield from _walk_slot(v2, anc)
    elif isinstance(v, list):
        for x in v:
            yield from _walk_slot(x, anc)
