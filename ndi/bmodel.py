"""Model for the builders: a scenario fixes the rank class of the data, whether each interpolated axis is shorter
than the strategy's minimum, whether each axis array has the length of its data axis, what monotonic_prop answers
for each axis, and what the strategy's own build returns."""
from .absint import *
from .kmodel import KModel
from .poly import Rat

MON = 'Monotonic'
MONO_VALUES = {
    'Rs': Enum(MON, 'Rising', {'strict': B(True)}),
    'Rn': Enum(MON, 'Rising', {'strict': B(False)}),
    'Fs': Enum(MON, 'Falling', {'strict': B(True)}),
    'Fn': Enum(MON, 'Falling', {'strict': B(False)}),
    'N': Enum(MON, 'NotMonotonic', {}),
}


class BModel(KModel):
    def __init__(self, scn):
        super().__init__(scn)
        self.builds = []
        self.questions = []
        self.err_token = None

    def ndim_value(self):
        n = self.scn['ndim']
        return Num(n) if isinstance(n, int) else Num(Rat.atom('ndim'))

    def compare(self, op, a, b, e):
        if isinstance(a, Num) and isinstance(b, Num):
            sa, sb = str(a.r), str(b.r)
            flip = {'lt': 'gt', 'le': 'ge', 'gt': 'lt', 'ge': 'le', 'eq': 'eq', 'ne': 'ne'}
            for (x, y, o) in ((sa, sb, op), (sb, sa, flip[op])):
                if x == 'ndim' and (b if x == sa else a).const() is not None:
                    c = (b if x == sa else a).const()
                    lo = self.scn['ndim_min']        # ndim >= lo is all that is known
                    self.questions.append(('ndim', o, c))
                    # all that is known of a symbolic rank: ndim >= lo
                    ans = {'lt': False if c <= lo else None, 'le': False if c < lo else None, 'gt': True if c < lo else None,
                           'ge': True if c <= lo else None, 'eq': False if c < lo else None, 'ne': True if c < lo else None}[o]
                    if ans is None:
                        return self._undecided(op, a, b, e)
                    return ans
                if x.startswith('d') and x[1:].isdigit() and y == 'MIN':
                    short = self.scn['short'][int(x[1:])]
                    self.questions.append(('min', int(x[1:]), o))
                    # d_i < MIN  <=> short
                    return {'lt': short, 'ge': not short}.get(o) if o in ('lt', 'ge') else self._undecided(op, a, b, e)
                if x.startswith('len_') and y.startswith('d') and y[1:].isdigit():
                    axis = x[4:]
                    want = {'x': 0, 'y': 1}[axis]
                    if int(y[1:]) != want:
                        raise Unsupported("length of axis %s is compared with data axis %s (expected %d)" % (axis, y[1:], want), e)
                    ok = self.scn['len_ok'][axis]
                    self.questions.append(('len', axis, o))
                    return {'eq': ok, 'ne': not ok}.get(o) if o in ('eq', 'ne') else self._undecided(op, a, b, e)
        return super().compare(op, a, b, e)

    def slice_pattern(self, obj, npre, nsuf, has_rest):
        if obj.kind != 'shape':
            return NotImplemented
        n = self.scn['ndim']
        if isinstance(n, int):
            if (n < npre + nsuf) or (not has_rest and n != npre + nsuf):
                return None
            idx = list(range(npre)) + list(range(n - nsuf, n))
            return [ValPlace(Num(Rat.atom('d%d' % k))) for k in idx]
        lo = self.scn['ndim_min']
        if has_rest and nsuf == 0 and npre <= lo:
            return [ValPlace(Num(Rat.atom('d%d' % k))) for k in range(npre)]
        if not has_rest and npre + nsuf < lo:
            return None
        raise Unsupported("slice pattern on data.shape() needs the exact rank, which the builder may not depend on")

    def for_loop(self, iterable, pat, body, frame, e):
        it = deref_all(iterable)
        if isinstance(it, Enum) and it.adt == 'std::ops::Range':
            s_, e_ = deref_all(it.fields['start']), deref_all(it.fields['end'])
            if isinstance(s_, Num) and isinstance(e_, Num) and not (s_.const() is not None and e_.const() is not None):
                # one inductive step with a symbolic position; a buffer pushed to once per iteration grows by the trip count
                bufs = []
                f = frame
                while f is not None:
                    bufs += [v for v in f.vars.values() if isinstance(v, Obj) and v.kind == 'vecbuf']
                    f = f.parent
                before = {id(b): b.d['pushes'] for b in bufs}
                lf = Frame(frame)
                if not self.interp.match_pat(pat, ValPlace(Num(Rat.atom('loopvar'))), lf):
                    raise Unsupported("loop pattern over a range", e)
                self.interp.eval(body, lf)
                for b in bufs:
                    per = b.d['pushes'] - before[id(b)]
                    b.d['pushes'] = before[id(b)]
                    b.d['length'] = b.d['length'] + (e_.r - s_.r) * per
                return Unit()
        return super().for_loop(iterable, pat, body, frame, e)

    def _undecided(self, op, a, b, e):
        raise Unsupported("comparison %s between %r and %r is outside the builder's decision table" % (op, a, b), e)

    def named_const(self, def_path, node):
        if def_path.endswith('::MINIMUM_DATA_LENGHT') and node.get('trait'):
            return Num(Rat.atom('MIN'))
        return NotImplemented

    def call(self, name, cal, args, e, frame):
        last = name.split('::')[-1]
        a0 = deref_all(args[0]) if args else None
        if name.endswith('VectorExtensions>::monotonic_prop') or name == 'VectorExtensions::monotonic_prop':
            if isinstance(a0, Obj) and a0.kind == 'ndarr' and a0.d['role'] == 'axis':
                import copy
                self.questions.append(('mono', a0.d['name']))
                return copy.deepcopy(MONO_VALUES[self.scn['mono'][a0.d['name']]])
            raise Unsupported("monotonic_prop of something that is not one of the builder's axes", e)
        if name in ('Interp1DStrategyBuilder::build', 'Interp2DStrategyBuilder::build'):
            self.builds.append({'self': deref_all(args[0]), 'args': [deref_all(a) for a in args[1:]], 'where': line_of(e)})
            if self.scn.get('build', 'ok') == 'ok':
                self.finished = Obj('finished_strategy')
                return OK(self.finished)
            self.err_token = Enum('BuilderError', 'ValueError', {'0': Obj('custom-build-error')})
            return ERR(self.err_token)
        if name in ('core::slice::<impl [T]>::first', 'core::slice::<impl [T]>::get') and isinstance(a0, Obj) and a0.kind == 'shape':
            k = 0 if last == 'first' else int(deref_all(args[1]).const())
            n = self.scn['ndim']
            lo = n if isinstance(n, int) else self.scn['ndim_min']
            if k < lo:
                return SOME(Ref(ValPlace(Num(Rat.atom('d%d' % k)))))
            if isinstance(n, int):
                return NONE
            raise Unsupported("shape().get(%d) with unknown rank" % k, e)
        if name in ('core::slice::<impl [T]>::iter', 'std::iter::IntoIterator::into_iter') and isinstance(a0, Obj) and a0.kind == 'shape':
            # the (sub-)slice of the shape as a sequence: its extent must be known (`[..2]`, or a concrete rank)
            off = a0.d.get('off', 0)
            n = self.scn['ndim']
            end = a0.d.get('end', n if isinstance(n, int) else None)
            if end is None:
                raise Unsupported("iteration over data.shape() needs the exact rank, which the builder may not depend on", e)
            return Obj('cseq', src=[Ref(ValPlace(Num(Rat.atom('d%d' % k)))) for k in range(off, end)], ops=[], pos=0)
        if name in ('builtin::index', 'std::ops::Index::index', 'core::slice::index::<impl std::ops::Index for [T]>::index') and isinstance(a0, Obj) and a0.kind == 'shape':
            idx = deref_all(args[1])
            off = a0.d.get('off', 0)
            n = self.scn['ndim']
            lo = n if isinstance(n, int) else self.scn['ndim_min']
            if isinstance(idx, Num) and idx.const() is not None:
                k = int(idx.const()) + off
                if k < min(lo, a0.d.get('end', lo)):
                    return Ref(ValPlace(Num(Rat.atom('d%d' % k))))
                raise Diverge("index %d out of bounds of data.shape() (rank %s)" % (k, n), e)
            if isinstance(idx, Enum) and idx.adt in ('std::ops::RangeTo', 'std::ops::Range', 'std::ops::RangeFrom', 'std::ops::RangeFull'):
                # a sub-slice of the shape: needs the rank to cover it
                s_ = deref_all(idx.fields['start']) if 'start' in idx.fields else Num(0)
                e_ = deref_all(idx.fields['end']) if 'end' in idx.fields else None
                if isinstance(s_, Num) and s_.const() is not None and (e_ is None or (isinstance(e_, Num) and e_.const() is not None)):
                    s0 = int(s_.const())
                    if e_ is not None:
                        if int(e_.const()) + off > lo:
                            raise Diverge("slice ..%d out of bounds of data.shape() (rank %s)" % (int(e_.const()), n), e)
                        return Ref(ValPlace(Obj('shape', of=a0.d.get('of'), off=off + s0, end=off + int(e_.const()))))
                    if s0 + off > lo:
                        raise Diverge("slice %d.. out of bounds of data.shape() (rank %s)" % (s0, n), e)
                    return Ref(ValPlace(Obj('shape', of=a0.d.get('of'), off=off + s0)))
            return NotImplemented
        if name == 'std::iter::Iterator::map' and isinstance(a0, Enum) and a0.adt == 'std::ops::Range':
            return Obj('range_map', range=a0)
        # a default axis filled element by element: Vec::with_capacity / new, one push per loop iteration, Array::from_vec
        if name in ('std::vec::Vec::with_capacity', 'std::vec::Vec::new', 'alloc::vec::Vec::with_capacity', 'alloc::vec::Vec::new'):
            return Obj('vecbuf', pushes=0, length=Rat.const(0))
        if name in ('std::vec::Vec::push', 'alloc::vec::Vec::push') and isinstance(a0, Obj) and a0.kind == 'vecbuf':
            a0.d['pushes'] += 1
            return Unit()
        if last in ('from_vec', 'from') and isinstance(a0, Obj) and a0.kind == 'vecbuf':
            self.default_axes = getattr(self, 'default_axes', 0) + 1
            return Obj('ndarr', name='default%d' % self.default_axes, role='axis', length=Num(a0.d['length']))
        nd = (cal.get('crate') == 'ndarray') or ('ndarray::' in (cal.get('resolved') or ''))
        if nd and last == 'from_iter' and isinstance(a0, Obj) and a0.kind == 'range_map':
            r = a0.d['range']
            self.default_axes = getattr(self, 'default_axes', 0) + 1
            return Obj('ndarr', name='default%d' % self.default_axes, role='axis', length=deref_all(r.fields['end']))
        if nd and isinstance(a0, Obj) and a0.kind == 'ndarr':
            if last in ('view', 'reborrow'):
                return a0          # a read-only view of an axis / the data is that array as far as the requirement table is concerned
            if last == 'ndim' and a0.d['role'] == 'data':
                return self.ndim_value()
            if last == 'shape' and a0.d['role'] == 'data':
                return Ref(ValPlace(Obj('shape', of=a0)))
            if last in ('len', 'dim', 'raw_dim') and a0.d['role'] == 'axis':
                return Num(Rat.atom('len_' + a0.d['name']))
            if last == 'len_of' and a0.d['role'] in ('axis', 'data'):
                ax = deref_all(args[1])
                k = deref_all(ax.fields.get('0')) if isinstance(ax, Enum) else None
                if isinstance(k, Num) and k.const() is not None:
                    k = int(k.const())
                    if a0.d['role'] == 'axis':
                        if k == 0:
                            return Num(Rat.atom('len_' + a0.d['name']))
                        raise Diverge("len_of(Axis(%d)) of a one-dimensional axis" % k, e)
                    n = self.scn['ndim']
                    lo = n if isinstance(n, int) else self.scn['ndim_min']
                    if k < lo:
                        return Num(Rat.atom('d%d' % k))
                    raise Diverge("len_of(Axis(%d)) of data of rank %s" % (k, n), e)
        return super().call(name, cal, args, e, frame)
