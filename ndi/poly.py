"""Exact multivariate polynomials / rational functions over named atoms.

Used to put extracted arithmetic kernels into a normal form so that identities
("this expression is the two-point form", "this row functional vanishes on
cubics") can be decided by comparison of normal forms.  No solver, no
floating point: coefficients are `fractions.Fraction`.
"""
from fractions import Fraction


SUBS_LOG = None      # when a list: (input, mapping, output) of every substitution (thorough tier cross-check)
ZERO_LOG = None      # when a list: every polynomial whose vanishing decided an identity is appended (thorough tier cross-check)


class Poly:
    __slots__ = ("t",)

    def __init__(self, terms=None):
        # terms: dict monomial -> Fraction ; monomial: tuple of (atom, exp) sorted
        self.t = {}
        if terms:
            for m, c in terms.items():
                if c != 0:
                    self.t[m] = Fraction(c)

    @staticmethod
    def const(c):
        return Poly({(): Fraction(c)})

    @staticmethod
    def atom(name):
        return Poly({((name, 1),): Fraction(1)})

    def is_zero(self):
        return not self.t

    def is_const(self):
        return all(m == () for m in self.t)

    def const_value(self):
        return self.t.get((), Fraction(0))

    def atoms(self):
        s = set()
        for m in self.t:
            for a, _ in m:
                s.add(a)
        return s

    def __add__(self, o):
        o = _p(o)
        r = dict(self.t)
        for m, c in o.t.items():
            v = r.get(m, 0) + c
            if v == 0:
                r.pop(m, None)
            else:
                r[m] = v
        return Poly(r)

    __radd__ = __add__

    def __neg__(self):
        return Poly({m: -c for m, c in self.t.items()})

    def __sub__(self, o):
        return self + (-_p(o))

    def __rsub__(self, o):
        return _p(o) - self

    def __mul__(self, o):
        o = _p(o)
        r = {}
        for m1, c1 in self.t.items():
            for m2, c2 in o.t.items():
                m = _mm(m1, m2)
                v = r.get(m, 0) + c1 * c2
                if v == 0:
                    r.pop(m, None)
                else:
                    r[m] = v
        return Poly(r)

    __rmul__ = __mul__

    def __pow__(self, n):
        assert isinstance(n, int) and n >= 0
        r = Poly.const(1)
        for _ in range(n):
            r = r * self
        return r

    def __eq__(self, o):
        if not isinstance(o, (Poly, int, Fraction)):
            return False
        return (self - _p(o)).is_zero()

    def __hash__(self):
        return hash(frozenset(self.t.items()))

    def subs(self, mapping):
        """mapping: atom -> Poly | Rat.  Returns Rat if any value is a Rat, else Poly."""
        res = Rat(Poly.const(0))
        for m, c in self.t.items():
            term = Rat(Poly.const(c))
            for a, e in m:
                if a in mapping:
                    v = mapping[a]
                    v = v if isinstance(v, Rat) else Rat(_p(v))
                    for _ in range(e):
                        term = term * v
                else:
                    term = term * Rat(Poly({((a, e),): 1}))
            res = res + term
        return res

    def degree_in(self, atom):
        d = 0
        for m in self.t:
            for a, e in m:
                if a == atom:
                    d = max(d, e)
        return d

    def coeff_of(self, atom, k):
        """coefficient polynomial of atom**k"""
        r = {}
        for m, c in self.t.items():
            e = 0
            rest = []
            for a, ee in m:
                if a == atom:
                    e = ee
                else:
                    rest.append((a, ee))
            if e == k:
                r[tuple(rest)] = r.get(tuple(rest), 0) + c
        return Poly(r)

    def __str__(self):
        if not self.t:
            return "0"
        parts = []
        for m in sorted(self.t, key=lambda m: (sum(e for _, e in m), m)):
            c = self.t[m]
            mon = "*".join(a if e == 1 else "%s^%d" % (a, e) for a, e in m)
            if mon == "":
                parts.append(str(c))
            elif c == 1:
                parts.append(mon)
            elif c == -1:
                parts.append("-" + mon)
            else:
                parts.append("%s*%s" % (c, mon))
        return " + ".join(parts).replace("+ -", "- ")

    __repr__ = __str__


def _mm(m1, m2):
    d = dict(m1)
    for a, e in m2:
        d[a] = d.get(a, 0) + e
    return tuple(sorted(d.items()))


def _p(x):
    if isinstance(x, Poly):
        return x
    if isinstance(x, (int, Fraction)):
        return Poly.const(x)
    raise TypeError("not a polynomial: %r" % (x,))


class Rat:
    """num/den with den != 0 assumed (denominators are interval lengths or
    pivots; each rule states which non-vanishing assumptions it relies on)."""
    __slots__ = ("n", "d")

    def __init__(self, n, d=None):
        self.n = _p(n)
        self.d = _p(d) if d is not None else Poly.const(1)
        if self.d.is_const() and not self.d.is_zero():
            c = self.d.const_value()
            if c != 1:
                self.n = self.n * Poly.const(1 / c)
                self.d = Poly.const(1)

    @staticmethod
    def atom(name):
        return Rat(Poly.atom(name))

    @staticmethod
    def const(c):
        return Rat(Poly.const(c))

    def __add__(self, o):
        o = _r(o)
        if self.d == o.d:
            return Rat(self.n + o.n, self.d)
        return Rat(self.n * o.d + o.n * self.d, self.d * o.d)

    __radd__ = __add__

    def __neg__(self):
        return Rat(-self.n, self.d)

    def __sub__(self, o):
        return self + (-_r(o))

    def __rsub__(self, o):
        return _r(o) - self

    def __mul__(self, o):
        o = _r(o)
        return Rat(self.n * o.n, self.d * o.d)

    __rmul__ = __mul__

    def __truediv__(self, o):
        o = _r(o)
        if o.n.is_zero():
            raise ZeroDivisionError("division by the zero polynomial")
        return Rat(self.n * o.d, self.d * o.n)

    def __rtruediv__(self, o):
        return _r(o) / self

    def __pow__(self, k):
        assert isinstance(k, int)
        if k >= 0:
            return Rat(self.n ** k, self.d ** k)
        return Rat(self.d ** (-k), self.n ** (-k))

    def is_zero(self):
        return self.n.is_zero()

    def raw(self):
        """numerator / denominator as plain term lists (for the independent re-check)"""
        def terms(p):
            return [[str(c), [[a, e] for a, e in m]] for m, c in p.t.items()]
        return {'n': terms(self.n), 'd': terms(self.d)}

    def __eq__(self, o):
        if not isinstance(o, (Rat, Poly, int, Fraction)):
            return False
        o = _r(o)
        res = (self.n * o.d - o.n * self.d).is_zero()
        if res and ZERO_LOG is not None and len(ZERO_LOG) < 4000 and (len(self.n.t) + len(o.n.t)) > 2:
            ZERO_LOG.append((self, o))
        return res

    def __hash__(self):
        return 0

    def is_poly(self):
        return self.d.is_const()

    def as_poly(self):
        assert self.d.is_const()
        return self.n * Poly.const(1 / self.d.const_value())

    def atoms(self):
        return self.n.atoms() | self.d.atoms()

    def subs(self, mapping):
        a = self.n.subs(mapping)
        b = self.d.subs(mapping)
        res = a / b
        if SUBS_LOG is not None and len(SUBS_LOG) < 3000 and mapping:
            SUBS_LOG.append((self, {k: (v if isinstance(v, Rat) else Rat(_p(v))) for k, v in mapping.items()}, res))
        return res

    def __str__(self):
        if self.d.is_const() and self.d.const_value() == 1:
            return str(self.n)
        return "(%s)/(%s)" % (self.n, self.d)

    __repr__ = __str__


def _r(x):
    if isinstance(x, Rat):
        return x
    return Rat(_p(x))


def diff_poly(p, atom):
    """d/d(atom) of a polynomial"""
    r = {}
    for m, c in p.t.items():
        e = 0
        rest = []
        for a, ee in m:
            if a == atom:
                e = ee
            else:
                rest.append((a, ee))
        if e >= 1:
            mm = list(rest)
            if e - 1 > 0:
                mm.append((atom, e - 1))
            mm = tuple(sorted(mm))
            r[mm] = r.get(mm, 0) + c * e
    return Poly(r)


def diff(r, atom):
    r = _r(r)
    if atom not in r.d.atoms():
        return Rat(diff_poly(r.n, atom), r.d)      # denominator free of the variable: no quotient rule, no blow-up
    # (n/d)' = (n' d - n d') / d^2
    return Rat(diff_poly(r.n, atom) * r.d - r.n * diff_poly(r.d, atom), r.d * r.d)


# ---------------------------------------------------------------------------
# parsing of the canonical text produced by Poly.__str__ (used to re-index atoms such as `x[1 + i]`)
def parse_poly(s):
    s = s.strip()
    if s == '0':
        return Poly()
    # split into signed terms
    terms = []
    cur = ''
    i = 0
    toks = s.replace(' - ', ' + -').split(' + ')
    res = Poly()
    for t in toks:
        t = t.strip()
        sign = 1
        if t.startswith('-'):
            sign = -1
            t = t[1:]
        factors = t.split('*')
        coeff = Fraction(1)
        mono = {}
        for f in factors:
            f = f.strip()
            if _is_number(f):
                coeff *= Fraction(f)
            else:
                if '^' in f:
                    a, e = f.rsplit('^', 1)
                    mono[a] = mono.get(a, 0) + int(e)
                else:
                    mono[f] = mono.get(f, 0) + 1
        res = res + Poly({tuple(sorted(mono.items())): sign * coeff})
    return res


def _is_number(f):
    try:
        Fraction(f)
        return True
    except (ValueError, ZeroDivisionError):
        return False


def split_atom(name):
    """`x[1 + i]` -> ('x', ['1 + i']) ; `z[i_x,1 + i_y]` -> ('z', ['i_x', '1 + i_y']); plain -> (name, None)"""
    if name.endswith(']') and '[' in name and not name.startswith('rem_euclid('):
        base, rest = name.split('[', 1)
        return base, [p.strip() for p in rest[:-1].split(',')]
    return name, None


def reindex(r, mapping):
    """substitute index variables inside indexed atoms: mapping var -> Poly/Rat (index expression).
    `x[1 + i]` with {i: n - 3} becomes `x[-2 + n]`."""
    r = _r(r)
    sub = {}
    for a in r.atoms():
        base, idxs = split_atom(a)
        if idxs is None:
            continue
        new = []
        changed = False
        for ix in idxs:
            p = parse_poly(ix)
            if p.atoms() & set(mapping):
                q = p.subs({k: (v if isinstance(v, (Poly, Rat)) else Poly.const(v)) for k, v in mapping.items()})
                new.append(str(q))
                changed = True
            else:
                new.append(ix)
        if changed:
            sub[a] = Rat.atom("%s[%s]" % (base, ",".join(new)))
    if not sub:
        return r
    return r.subs(sub)
