"""Fact extraction: runs the rustc_private driver `ndi-facts` over /repo's
*current working tree* (cargo +nightly check, RUSTC_WORKSPACE_WRAPPER) and
loads the JSON fact file.  A content hash of /repo keys a cache so that the
checks of one session share one extraction; any changed byte invalidates it.
The analysed code is never executed."""
import fcntl, hashlib, json, os, shutil, subprocess, sys, time, uuid

VERIF = os.path.dirname(os.path.dirname(os.path.abspath(__file__)))
REPO = os.environ.get("NDI_REPO", "/repo")
DRIVER_DIR = os.path.join(VERIF, "driver")
DRIVER = os.path.join(DRIVER_DIR, "target", "release", "ndi-facts")
CACHE = os.path.join(VERIF, ".cache")
TARGET = os.path.join(VERIF, ".target")
TSUFFIX = os.environ.get("NDI_TARGET_SUFFIX", "")


class ExtractionError(Exception):
    pass


def _sysroot():
    return subprocess.check_output(["rustc", "+nightly", "--print", "sysroot"], text=True).strip()


def repo_hash(extra=()):
    h = hashlib.sha256()
    files = []
    for root, dirs, fs in os.walk(REPO):
        dirs[:] = sorted(d for d in dirs if d not in (".git", "target"))
        for f in sorted(fs):
            files.append(os.path.join(root, f))
    for p in files:
        h.update(p.encode())
        try:
            with open(p, "rb") as fh:
                h.update(fh.read())
        except OSError:
            pass
    # the driver's own sources are part of the key
    for root, dirs, fs in os.walk(os.path.join(DRIVER_DIR, "src")):
        for f in sorted(fs):
            with open(os.path.join(root, f), "rb") as fh:
                h.update(fh.read())
    for e in extra:
        h.update(str(e).encode())
    return h.hexdigest()[:24]


def ensure_driver():
    srcs = []
    for root, dirs, fs in os.walk(os.path.join(DRIVER_DIR, "src")):
        srcs += [os.path.join(root, f) for f in fs]
    if os.path.exists(DRIVER) and all(os.path.getmtime(DRIVER) >= os.path.getmtime(s) for s in srcs):
        return
    env = dict(os.environ, CARGO_NET_OFFLINE="true")
    r = subprocess.run(["cargo", "+nightly", "build", "--release", "--offline"], cwd=DRIVER_DIR, env=env,
                       capture_output=True, text=True)
    if r.returncode != 0 or not os.path.exists(DRIVER):
        raise ExtractionError("driver build failed:\n" + r.stderr[-4000:])


def _run_driver(manifest_dir, crates, target_dir, out_dir, build=False, mono=False, pkg_fingerprints=()):
    ensure_driver()
    os.makedirs(out_dir, exist_ok=True)
    os.makedirs(target_dir, exist_ok=True)
    # cargo's freshness cache would skip the wrapper: drop the members' fingerprints
    fpdir = os.path.join(target_dir, "debug", ".fingerprint")
    if os.path.isdir(fpdir):
        for d in os.listdir(fpdir):
            if any(d.startswith(p) for p in pkg_fingerprints):
                shutil.rmtree(os.path.join(fpdir, d), ignore_errors=True)
    nonce = uuid.uuid4().hex
    env = dict(os.environ)
    env.update({
        "LD_LIBRARY_PATH": _sysroot() + "/lib:" + env.get("LD_LIBRARY_PATH", ""),
        "RUSTFLAGS": "-Zmir-opt-level=0 -Zalways-encode-mir -Zno-steal-thir -Awarnings",
        "RUSTC_WORKSPACE_WRAPPER": DRIVER,
        "CARGO_TARGET_DIR": target_dir,
        "CARGO_NET_OFFLINE": "true",
        "NDI_FACTS_DIR": out_dir,
        "NDI_CRATES": ",".join(crates),
        "NDI_NONCE": nonce,
    })
    env.pop("RUSTC_WRAPPER", None)
    if mono:
        env["NDI_MONO"] = "1"
    cmd = ["cargo", "+nightly", "build" if build else "check", "--offline"]
    if not build:
        cmd.append("--lib")
    r = subprocess.run(cmd, cwd=manifest_dir, env=env, capture_output=True, text=True)
    if r.returncode != 0:
        raise ExtractionError("cargo failed in %s (the tree does not compile?):\n%s" % (manifest_dir, r.stderr[-6000:]))
    res = {}
    for c in crates:
        p = os.path.join(out_dir, "facts-%s.json" % c)
        if not os.path.exists(p):
            raise ExtractionError("fact file %s was not written (driver skipped?)" % p)
        with open(p) as fh:
            f = json.load(fh)
        if f.get("nonce") != nonce:
            raise ExtractionError("stale fact file %s (nonce mismatch)" % p)
        res[c] = f
    return res


_mem = {}


def module_regex(modules):
    """regex matching a local module path used as a path prefix (`interp1d::strategies::`), longest first"""
    import re
    mods = sorted({m for m in modules if m}, key=lambda m: (-m.count('::'), -len(m), m))
    if not mods:
        return None
    return re.compile(r'(?<![\w:])(' + '|'.join(re.escape(m) for m in mods) + r')::(?=([A-Za-z_]\w*)|[<{])')


def colliding_names(raw, modules):
    """item names defined in more than one local module (two private `Violation` enums, two `helper` functions): these keep
    their module-qualified names, everything else becomes module-free"""
    rx = module_regex(modules)
    if rx is None:
        return set()
    where = {}
    paths = [b.get('def', '') for b in raw.get('bodies', [])] + [a.get('path', '') for a in raw.get('adts', [])] + \
            [s.get('path', '') for s in raw.get('statics', [])]
    for p in paths:
        m = rx.match(p)
        if m and m.group(2) and m.end() == len(m.group(0)) + 0:
            where.setdefault(m.group(2), set()).add(m.group(1))
    return {n for n, ms in where.items() if len(ms) > 1}


def canonicalise_text(text, modules, keep=frozenset()):
    """Items are named independently of the module layout: `interp1d::strategies::cubic_spline::CubicSpline::thomas`
    becomes `CubicSpline::thomas`.  Moving code between (private) modules, with the public paths kept by re-exports,
    therefore does not change any name the checks see.  Two items that collapse to one name become ambiguous and are
    not resolvable by name (anchors fail closed)."""
    import re
    rx = module_regex(modules)
    if rx:
        text = rx.sub(lambda m: m.group(0) if (m.group(2) in keep) else '', text)
    # an inherent impl placed in another module than its type prints as `<impl Type<T>>::f`; same-module form is `Type::<T>::f`
    gen = r'<(?:[^<>]|<(?:[^<>]|<[^<>]*>)*>)*>'
    text = re.sub(r'(?<![\w:])<impl ([A-Za-z_]\w*)(' + gen + r')?>::',
                  lambda m: m.group(1) + ('::' + m.group(2) if m.group(2) else '') + '::', text)
    return text


def _load_canonical(path):
    with open(path) as fh:
        text = fh.read()
    raw = json.loads(text)
    modules = [m['path'] for m in raw.get('modules', [])]
    keep = colliding_names(raw, modules)
    f = json.loads(canonicalise_text(text, modules, keep))
    f['_modules'] = modules
    f['_module_qualified'] = sorted(keep)
    return f


def lib_facts():
    """Facts of the library crate at /repo's current working tree."""
    key = repo_hash()
    if key in _mem:
        return _mem[key]
    os.makedirs(CACHE, exist_ok=True)
    lock = open(os.path.join(CACHE, "lock"), "w")
    fcntl.flock(lock, fcntl.LOCK_EX)
    try:
        cdir = os.path.join(CACHE, key)
        cfile = os.path.join(cdir, "facts-ndarray_interp.json")
        t0 = time.time()
        if os.path.exists(cfile):
            f = _load_canonical(cfile)
            f["_cached"] = True
        else:
            # prune old cache entries
            for d in os.listdir(CACHE):
                p = os.path.join(CACHE, d)
                if os.path.isdir(p) and d != key and time.time() - os.path.getmtime(p) > 3600:
                    shutil.rmtree(p, ignore_errors=True)
            out = _run_driver(REPO, ["ndarray_interp"], os.path.join(TARGET, "lib" + TSUFFIX), cdir,
                              pkg_fingerprints=("ndarray-interp-",))
            f = _load_canonical(cfile)
            f["_cached"] = False
        f["_extract_s"] = round(time.time() - t0, 2)
        f["_repo_hash"] = key
    finally:
        fcntl.flock(lock, fcntl.LOCK_UN)
        lock.close()
    _mem[key] = f
    return f
