"""Which private field holds what - learnt from the public constructors and setters, never written down.

`Interp1D::new_unchecked(x, data, strategy)`, `Interp2D::new_unchecked(x, y, data, strategy)`, `Interp*Builder::new(data)` and the
builders' setters are public; evaluating them on marker objects shows in which field each argument ends up.  The checks name
fields by role ('x', 'y', 'data', 'strategy') and this table translates the role to the field's name in the analysed tree."""
from .absint import *

_CUR = {'lib': None, 'map': {}}
IDENT = {'x': 'x', 'y': 'y', 'data': 'data', 'strategy': 'strategy'}


class _Plain(Model):
    def call(self, name, cal, args, e, frame):
        return NotImplemented


def bind(lib):
    _CUR['lib'] = lib
    _CUR['map'] = {}


def _learn(lib, adt):
    roles = ['x', 'data', 'strategy'] if adt in ('Interp1D', 'Interp1DBuilder') else ['x', 'y', 'data', 'strategy']
    mark = {r: Obj('marker', role=r) for r in roles}
    try:
        it = Interp(lib, _Plain())
        if adt in ('Interp1DBuilder', 'Interp2DBuilder'):
            # the builders' constructors look at the data's shape: use the builder model's data object as the marker
            from .bmodel import BModel
            lead = 1 if adt == 'Interp1DBuilder' else 2
            it = Interp(lib, BModel({'ndim': 'big', 'ndim_min': lead}))
            mark['data'] = Obj('ndarr', name='data', role='data')
        if adt in ('Interp1D', 'Interp2D'):
            v = deref_all(it.call_norm(adt + '::new_unchecked', [mark[r] for r in roles]))
        else:
            v = deref_all(it.call_norm(adt + '::new', [mark['data']]))
            for r in roles:
                if r != 'data':
                    v = deref_all(it.call_norm('%s::%s' % (adt, r), [v, mark[r]]))
        if not isinstance(v, Enum):
            return dict(IDENT)
        out = {}
        for r in roles:
            names = [f for f, val in v.fields.items() if deref_all(val) is mark[r]]
            if len(names) != 1:
                return dict(IDENT)
            out[r] = names[0]
        return out
    except (Unsupported, Diverge, KeyError):
        return dict(IDENT)


def field(adt, role):
    """name of the field of `adt` that holds `role` in the bound tree (the role's own name if it cannot be learnt)"""
    lib = _CUR['lib']
    if lib is None:
        return role
    if adt not in _CUR['map']:
        _CUR['map'][adt] = _learn(lib, adt)
    return _CUR['map'][adt].get(role, role)


def make(adt, **parts):
    """a value of `adt` whose fields hold the given parts (by role)"""
    return Enum(adt, adt, {field(adt, r): v for r, v in parts.items()})


def part(value, adt, role):
    return value.fields.get(field(adt, role)) if isinstance(value, Enum) else None
