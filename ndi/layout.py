"""Which private field holds what - learnt from the public constructors and setters, never written down.

`Interp1D::new_unchecked(x, data, strategy)`, `Interp2D::new_unchecked(x, y, data, strategy)`, `Interp*Builder::new(data)` and the
builders' setters are public; evaluating them on marker objects shows in which field each argument ends up.  The checks name
fields by role ('x', 'y', 'data', 'strategy') and this table translates the role to the field's name in the analysed tree."""
from .absint import *

_CUR = {'lib': None, 'map': {}}
IDENT = {'x': 'x', 'y': 'y', 'data': 'data', 'strategy': 'strategy'}


class _Plain(Model):
    def call(self, name, cal, args, e, frame):
        return NotImplemented


def bind(lib):
    _CUR['lib'] = lib
    _CUR['map'] = {}
    _CUR['skeleton'] = {}


def _learn(lib, adt):
    roles = ['x', 'data', 'strategy'] if adt in ('Interp1D', 'Interp1DBuilder') else ['x', 'y', 'data', 'strategy']
    mark = {r: Obj('marker', role=r) for r in roles}
    try:
        it = Interp(lib, _Plain())
        if adt in ('Interp1DBuilder', 'Interp2DBuilder'):
            # the builders' constructors look at the data's shape: use the builder model's data object as the marker
            from .bmodel import BModel
            lead = 1 if adt == 'Interp1DBuilder' else 2
            it = Interp(lib, BModel({'ndim': 'big', 'ndim_min': lead}))
            mark['data'] = Obj('ndarr', name='data', role='data')
        if adt in ('Interp1D', 'Interp2D'):
            v = deref_all(it.call_norm(adt + '::new_unchecked', [mark[r] for r in roles]))
        else:
            v = deref_all(it.call_norm(adt + '::new', [mark['data']]))
            for r in roles:
                if r != 'data':
                    v = deref_all(it.call_norm('%s::%s' % (adt, r), [v, mark[r]]))
        if not isinstance(v, Enum):
            return dict(IDENT)
        out = {}
        for r in roles:
            paths = _find(v, mark[r], ())
            if len(paths) != 1:
                return dict(IDENT)
            out[r] = paths[0][0] if len(paths[0]) == 1 else paths[0]
        if any(isinstance(p, tuple) for p in out.values()):
            _CUR.setdefault('skeleton', {})[adt] = v          # nested private aggregates: remember their type names
        return out
    except (Unsupported, Diverge, KeyError):
        return dict(IDENT)


def _find(v, marker, prefix, depth=0):
    """every field path inside the value `v` that holds `marker`"""
    v = deref_all(v)
    if v is marker:
        return [prefix]
    if isinstance(v, Enum) and depth < 4:
        out = []
        for f, val in v.fields.items():
            out += _find(val, marker, prefix + (f,), depth + 1)
        return out
    return []


def field(adt, role):
    """name of the field of `adt` that holds `role` in the bound tree (the role's own name if it cannot be learnt)"""
    lib = _CUR['lib']
    if lib is None:
        return role
    if adt not in _CUR['map']:
        _CUR['map'][adt] = _learn(lib, adt)
    return _CUR['map'][adt].get(role, role)


def _path(adt, role):
    p = field(adt, role)
    return p if isinstance(p, tuple) else (p,)


def make(adt, **parts):
    """a value of `adt` whose fields hold the given parts (by role); parts kept in a private nested aggregate are put there"""
    out = Enum(adt, adt, {})
    skel = _CUR.get('skeleton', {}).get(adt)
    for r, v in parts.items():
        path = _path(adt, r)
        cur, sk = out, skel
        for f in path[:-1]:
            sk = deref_all(sk.fields[f]) if isinstance(sk, Enum) and f in sk.fields else None
            if f not in cur.fields:
                cur.fields[f] = Enum(sk.adt, sk.variant, {}) if isinstance(sk, Enum) else Enum('?', '?', {})
            cur = cur.fields[f]
        cur.fields[path[-1]] = v
    return out


def part(value, adt, role):
    cur = value
    for f in _path(adt, role):
        cur = deref_all(cur) if cur is not None else None
        if not isinstance(cur, Enum):
            return None
        cur = cur.fields.get(f)
    return cur
